"""Property -> units table (what decides what).  Tags are the obligation names printed in VIOLATION lines."""

TRUSTED_BASE = [
    'Verus 0.2026.09.13 + bundled Z3', 'Kani 0.68.0 + CBMC 6.11 + CaDiCaL/kissat',
    'rustc derive expansions; Kani models of std (memcpy/memcmp, allocation never fails)',
    'extraction rules E1-E3, D1-D5, V1 (see DESIGN.md section 3.1): verified text = real items minus log statements / metrics-feature code',
]
STANDING_ASSUMPTIONS = [
    'socket / timer / async event loops, unsafe io_uring code and file I/O are unverified (DESIGN.md section 8)',
]

# ---------------------------------------------------------------- Kani units
K_UDP_VALIDATOR = dict(
    unit='udp_validator', package='aquatic_udp',
    inject=[('crates/udp/src/workers/socket/validator.rs', 'validator_harness.rs')],
    harnesses=[
        dict(name='workers::socket::validator::verif_kani::create_layout', complete=True, timeout=300,
             tags=['C05.create.layout.time', 'C05.create.layout.mac'], functions=['ConnectionValidator::create_connection_id'],
             no_playback='hash is stubbed by an uninterpreted function'),
        dict(name='workers::socket::validator::verif_kani::valid_spec', complete=True, timeout=300,
             tags=['C05.valid.mac', 'C05.valid.expiry', 'C05.valid.future', 'C05.valid.accepts'], functions=['ConnectionValidator::connection_id_valid'],
             no_playback='hash is stubbed by an uninterpreted function'),
        dict(name='workers::socket::validator::verif_kani::issue_then_check', complete=True, timeout=300,
             tags=['C05.window.same_ip', 'C05.window.other_ip'], functions=['ConnectionValidator::create_connection_id', 'ConnectionValidator::connection_id_valid'],
             no_playback='hash is stubbed by an uninterpreted function'),
        dict(name='workers::socket::validator::verif_kani::altered_id', complete=True, timeout=300,
             tags=['C05.altered'], functions=['ConnectionValidator::connection_id_valid'],
             no_playback='hash is stubbed by an uninterpreted function'),
    ],
)

K_COMMON_ADDR = dict(
    unit='common_addr', package='aquatic_common',
    inject=[('crates/common/src/lib.rs', 'common_harness.rs')],
    attrs=[
        dict(file='crates/common/src/lib.rs', before=r'^    pub fn new\(addr: SocketAddr\) -> Self \{',
             lines=['#[cfg_attr(kani, kani::ensures(|r: &CanonicalSocketAddr| r.0 == verif_kani::canon_spec(addr)))]']),
        dict(file='crates/common/src/lib.rs', before=r'^    pub fn new_with_now\(now: SecondsSinceServerStart, offset_seconds: u32\) -> Self \{',
             lines=['#[cfg_attr(kani, kani::requires(now.0 as u64 + offset_seconds as u64 <= u32::MAX as u64))]',
                    '#[cfg_attr(kani, kani::ensures(|r: &ValidUntil| (r.0).0 as u64 == now.0 as u64 + offset_seconds as u64))]']),
    ],
    harnesses=[
        dict(name='verif_kani::contract_canonical_new', complete=True, timeout=300, tags=['C03.canon.contract_new'],
             functions=['CanonicalSocketAddr::new (kani::ensures)']),
        dict(name='verif_kani::canonical_views', complete=True, timeout=300,
             tags=['C03.canon.new', 'C03.canon.is_ipv4', 'C03.canon.get_ipv4', 'C03.canon.mapped', 'C03.canon.roundtrip', 'C03.canon.dual_stack_same_peer'],
             functions=['CanonicalSocketAddr::new', 'CanonicalSocketAddr::get_ipv6_mapped', 'CanonicalSocketAddr::get_ipv4', 'CanonicalSocketAddr::is_ipv4']),
        dict(name='verif_kani::contract_new_with_now', complete=True, timeout=300, tags=['C10.valid_until.contract_new_with_now'],
             functions=['ValidUntil::new_with_now (kani::requires/ensures)']),
        dict(name='verif_kani::valid_until_exact', complete=True, timeout=300, tags=['C10.valid_until.exact'],
             functions=['ValidUntil::new_with_now', 'ValidUntil::valid']),
    ],
)

_UP = 'crates/udp_protocol/src/'
K_UDP_PROTO = dict(
    unit='udp_proto', package='aquatic_udp_protocol',
    inject=[(_UP + 'request.rs', 'request_harness.rs')],
    harnesses=[
        dict(name='request::verif_kani::parse_write_connect', complete=True, timeout=600,
             tags=['C13.req.connect.fields', 'C13.req.connect.accept', 'C13.req.connect.reject', 'C13.req.connect.write', 'C13.req.connect.roundtrip', 'C12.udp_proto.request_parse_connect'],
             functions=['Request::parse_bytes (connect)', 'ConnectRequest::write_bytes']),
        dict(name='request::verif_kani::parse_connect_announce', complete=True, timeout=1500, tier='thorough',
             tags=['C13.req.short', 'C13.req.connect.fields', 'C13.req.connect.accept', 'C13.req.connect.reject', 'C13.req.announce.reject',
                   'C13.req.announce.port0', 'C13.req.announce.event', 'C13.req.announce.fields', 'C13.req.announce.accept', 'C13.req.unknown_action',
                   'C12.udp_proto.request_parse_128'],
             functions=['Request::parse_bytes (connect, announce, unknown action; all datagrams <= 128 bytes)']),
        dict(name='request::verif_kani::parse_scrape_small', complete=False, bound='<= 4 hashes + ragged tails', timeout=2400, tier='thorough',
             tags=['C13.req.scrape.short', 'C13.req.scrape.bad_list', 'C13.req.scrape.truncation', 'C13.req.scrape.fields', 'C13.req.scrape.order',
                   'C13.req.scrape.accept', 'C06.parse.scrape_truncation', 'C06.parse.scrape_order'],
             functions=['Request::parse_bytes (scrape)']),
        dict(name='request::verif_kani::parse_scrape_any_len', complete=True, timeout=1500, tier='thorough',
             tags=['C13.req.scrape.truncation_any_len', 'C13.req.scrape.order_any_len', 'C13.req.scrape.accept_any_len',
                   'C06.parse.scrape_truncation_any_len', 'C06.parse.scrape_order_any_len'],
             functions=['Request::parse_bytes (scrape, every well-formed datagram <= 8192 bytes)']),
        dict(name='request::verif_kani::write_connect_announce', complete=True, timeout=1500, tier='thorough',
             tags=['C13.req.connect.write', 'C13.req.connect.roundtrip', 'C13.req.announce.write', 'C13.req.announce.roundtrip'],
             functions=['ConnectRequest::write_bytes', 'AnnounceRequest::write_bytes']),
        dict(name='request::verif_kani::write_scrape', complete=False, bound='<= 2 hashes', timeout=2400, tier='thorough',
             tags=['C13.req.scrape.write', 'C13.req.scrape.roundtrip'], functions=['ScrapeRequest::write_bytes']),
    ],
)

_SW = 'udp_swarm: '
K_UDP_SWARM = dict(
    unit='udp_swarm', package='aquatic_udp',
    inject=[('crates/udp/src/swarm.rs', 'swarm_harness.rs')],
    replace=[('crates/common/Cargo.toml', 'indexmap = "2"', 'indexmap = { package = "indexmap_model", path = "/verif/models/indexmap_model" }')],
    harnesses=[
        dict(name='swarm::verif_kani::small_insert_etc_v4', tier='thorough', complete=True, timeout=900,
             tags=['C01.udp.small.is_full', 'C01.udp.small.nsl', 'C01.udp.small.insert', 'C02.udp.small.extract.len', 'C02.udp.small.extract.keys'],
             functions=['SmallPeerMap::{is_full,num_seeders_leechers,insert,extract_response_peers}']),
        dict(name='swarm::verif_kani::small_remove_v4', complete=True, timeout=1500, tier='thorough',
             tags=['C01.udp.small.remove.absent', 'C01.udp.small.remove.present'], functions=['SmallPeerMap::remove']),
        dict(name='swarm::verif_kani::small_remove_v6', complete=True, timeout=2400, tier='thorough',
             tags=['C01.udp.small.remove.absent', 'C01.udp.small.remove.present'], functions=['SmallPeerMap::remove (IPv6)']),
        dict(name='swarm::verif_kani::small_insert_etc_v6', complete=True, timeout=1500, tier='thorough',
             tags=['C01.udp.small.is_full', 'C01.udp.small.nsl', 'C01.udp.small.insert', 'C02.udp.small.extract.len', 'C02.udp.small.extract.keys'],
             functions=['SmallPeerMap::* (IPv6)']),
        dict(name='swarm::verif_kani::small_clean_v4', tier='thorough', complete=True, timeout=900,
             tags=['C10.udp.small.clean.keeps_unexpired', 'C10.udp.small.clean.removes_expired', 'C01.udp.small.clean.counts', 'C20.udp.small.clean.counts', 'C20.udp.small.clean.no_msgs_when_off'],
             functions=['SmallPeerMap::clean_and_get_num_peers']),
        dict(name='swarm::verif_kani::small_to_large_v4', tier='thorough', complete=True, timeout=900,
             tags=['C01.udp.small.to_large.same_entries', 'C01.udp.small.to_large.num_seeders'], functions=['SmallPeerMap::to_large']),
        dict(name='swarm::verif_kani::large_clean_v4_3', tier='thorough', complete=False, bound='heap map <= 3 entries', timeout=900,
             tags=['C10.udp.large.clean.keeps_unexpired', 'C10.udp.large.clean.removes_expired', 'C01.udp.large.clean.wf', 'C01.udp.large.clean.counts', 'C20.udp.large.clean.counts'],
             functions=['LargePeerMap::clean_and_get_num_peers']),
        dict(name='swarm::verif_kani::large_clean_v4_5', complete=False, bound='heap map <= 5 entries', timeout=2400, tier='thorough',
             tags=['C10.udp.large.clean.keeps_unexpired', 'C10.udp.large.clean.removes_expired', 'C01.udp.large.clean.wf', 'C01.udp.large.clean.counts', 'C20.udp.large.clean.counts'],
             functions=['LargePeerMap::clean_and_get_num_peers']),
        dict(name='swarm::verif_kani::tally_announce_small_v4', tier='thorough', complete=True, timeout=2400,
             tags=['C20.tally.announce.new_key', 'C20.tally.announce.same_id', 'C20.tally.announce.stop_other_id', 'C20.tally.announce.id_change'],
             functions=['PeerMap::announce (statistics messages, inline map)'], playback_optional=True,
             no_playback='Sender::try_send is replaced by a recorder (no native counterpart); the finding is demonstrated by findings/D4/demo.diff'),
        dict(name='swarm::verif_kani::large_try_shrink_v4_4', tier='thorough', complete=False, bound='heap map <= 4 entries', timeout=900,
             tags=['C01.udp.large.try_shrink.iff_fits', 'C01.udp.large.try_shrink.self_unchanged', 'C01.udp.large.try_shrink.same_entries'],
             functions=['LargePeerMap::try_shrink']),
    ],
)

K_WS_PROTO = dict(
    unit='ws_proto', package='aquatic_ws_protocol',
    inject=[('crates/ws_protocol/src/common.rs', 'common_harness.rs')],
    harnesses=[
        dict(name='common::verif_kani::visit_str_ascii_len', complete=False, bound='ASCII strings of <= 21 chars', timeout=900,
             tags=['C15.ident.too_short', 'C15.ident.too_long', 'C15.ident.value', 'C15.ident.accept', 'C12.ws_proto.visit_str_ascii'],
             functions=['TwentyByteVisitor::visit_str']),
        dict(name='common::verif_kani::visit_str_exact', complete=False, bound='strings of <= 21 chars from U+0000..U+00FF plus a 256-char window above', timeout=1800, tier='thorough',
             tags=['C15.ident.too_short', 'C15.ident.too_long', 'C15.ident.out_of_range', 'C15.ident.value', 'C15.ident.accept', 'C12.ws_proto.visit_str'],
             functions=['TwentyByteVisitor::visit_str']),
        dict(name='common::verif_kani::serialize_exact_and_roundtrip', complete=True, timeout=1800, tier='thorough',
             tags=['C15.ident.encode.ok', 'C15.ident.encode.chars', 'C15.ident.encode.len', 'C15.ident.roundtrip'],
             functions=['serialize_20_bytes', 'TwentyByteVisitor::visit_str']),
    ],
)
K_HTTP_PROTO = dict(
    unit='http_proto', package='aquatic_http_protocol',
    inject=[('crates/http_protocol/src/utils.rs', 'utils_harness.rs')],
    harnesses=[
        dict(name='utils::verif_kani::urlencode_layout', complete=True, timeout=600,
             tags=['C14.ident.encode.len', 'C14.ident.encode.layout'], functions=['urlencode_20_bytes']),
        dict(name='utils::verif_kani::urlencode_exact_and_roundtrip', complete=True, timeout=2400, tier='thorough',
             tags=['C14.ident.encode.len', 'C14.ident.encode.layout', 'C14.ident.roundtrip'], functions=['urlencode_20_bytes', 'urldecode_20_bytes']),
        dict(name='utils::verif_kani::urldecode_exact', complete=False, bound='<= 21 units of ASCII (plain or %xx)', timeout=2400, tier='thorough',
             tags=['C14.ident.decode.exactly_20', 'C14.ident.decode.bad_hex', 'C14.ident.decode.value', 'C14.ident.decode.accept', 'C12.http_proto.urldecode'],
             functions=['urldecode_20_bytes']),
    ],
)

_IDXMODEL = ('crates/common/Cargo.toml', 'indexmap = "2"', 'indexmap = { package = "indexmap_model", path = "/verif/models/indexmap_model" }')
K_HTTP_SWARM = dict(
    unit='http_swarm', package='verif_http_harness',
    inject=[('crates/http/src/workers/swarm/storage.rs', 'storage_harness.rs')],
    copy=[('crate', 'crates/verif_http_harness')], workspace_members=['crates/verif_http_harness'],
    replace=[_IDXMODEL],
    harnesses=[
        dict(name='storage::verif_kani::small_queries_v4', complete=True, timeout=1500, tier='thorough',
             tags=['C07.http.small.is_full', 'C07.http.small.nsl', 'C02.http.small.extract.len', 'C02.http.small.extract.keys', 'C07.http.small.to_large'],
             functions=['http SmallPeerMap::{is_full,num_seeders_leechers,extract_response_peers,to_large}']),
        dict(name='storage::verif_kani::small_insert_remove_v4', complete=True, timeout=2400, tier='thorough',
             tags=['C07.http.small.remove.absent', 'C07.http.small.remove.present', 'C07.http.small.insert'], functions=['http SmallPeerMap::{remove,insert}']),
        dict(name='storage::verif_kani::small_clean_v4', complete=True, timeout=1500, tier='thorough',
             tags=['C10.http.small.clean.keeps_unexpired', 'C10.http.small.clean.removes_expired'], functions=['http SmallPeerMap::clean_and_get_num_peers']),
        dict(name='storage::verif_kani::large_clean_shrink_v4_5', complete=False, bound='heap map <= 5 entries', timeout=2400, tier='thorough',
             tags=['C10.http.large.clean.keeps_unexpired', 'C10.http.large.clean.removes_expired', 'C07.http.large.clean.wf',
                   'C07.http.large.try_shrink.iff_fits', 'C07.http.large.try_shrink.same_entries'],
             functions=['http LargePeerMap::{clean_and_get_num_peers,try_shrink}']),
        dict(name='storage::verif_kani::scrape_first_max_each_once', tier='thorough', complete=False, bound='2 stored torrents x <= 2 peers, <= 4 requested hashes out of 4', timeout=2400,
             tags=['C07.http.scrape.only_first_max', 'C07.http.scrape.counts', 'C07.http.scrape.each_requested_once'],
             functions=['http TorrentMap::handle_scrape_request']),
    ],
)

PROPS = {
    'C01': dict(
        verus=['udp_swarm'], kani=[K_UDP_SWARM], level='proof',
        technique='Verus contracts (refinement of a reference tracker by one-step contracts) on the real PeerMap / LargePeerMap functions, extracted mechanically each run',
        claim='Every public operation of the per-torrent UDP peer map is proved, for all states and inputs, to refine the reference tracker transition (counts exclude the announcer, stopped removes, latest wins, scrape counts everything); induction over histories follows from the one-step contracts.',
        note='Assumes the dependency contract for indexmap and the hand-off contracts of the inline map (SmallPeerMap) and try_shrink; shard/lock level and cleaning are not covered by the proof part.',
        assumptions=['hand-off contracts of SmallPeerMap::* and LargePeerMap::try_shrink are assumed in the Verus unit (discharged separately by Kani where listed)',
                     'dependency contract for indexmap::IndexMap (insert appends or overwrites in place; swap_remove removes the key)'],
        not_reached=['TorrentMapShards (locks, Arc, hashbrown): shard-level frame'],
    ),
    'C02': dict(
        verus=['udp_swarm', 'http_swarm'], kani=[], level='proof',
        technique='Verus contracts on the real extract_response_peers / PeerMap::announce (all sizes, all RNG outcomes, all numwant values)',
        claim='UDP: the peer list of every announce reply is duplicate-free, a subset of the stored peers minus the announcer, at most min(numwant, max) long (non-positive numwant = max), complete when the swarm is small and at least limit-1 otherwise; index arithmetic of the two-half selection is proved safe.',
        note='http and ws peer selection are added by later units; inline-map selection (SmallPeerMap::extract_response_peers) is a hand-off contract.',
    ),
    'C03': dict(
        verus=['udp_handler', 'udp_swarm', 'http_swarm'], kani=[K_COMMON_ADDR], level='proof',
        technique='Verus contracts: key construction from the datagram source in TorrentMaps::announce / PeerMap::announce (request.ip_address cannot influence the post-state)',
        claim='UDP: the address family and the IP octets handed to the per-torrent map are those of the datagram source, and the stored key is (that ip, request.port).',
        note='recv_from glue, CanonicalSocketAddr and the http/ws paths are covered by other units or not reached.',
    ),
    'C06': dict(
        verus=['udp_handler', 'udp_swarm'], kani=[], level='proof',
        technique='Verus contracts on the real handle_request of both socket back ends (mio and io_uring) with permission preconditions on the swarm entry points',
        claim='For every request and source: connect is always answered with the echoed transaction id; announce/scrape are answered iff the connection id is valid for the source; the reply kind, address family and transaction id are those the request calls for; the swarm is never reached without a valid id.',
        note='validator and shard maps are contract stubs (C05 / C01 decide them); datagram I/O loops, source-port-0 filtering and one-datagram-per-datagram are not reached.',
    ),
    'C07': dict(
        verus=['http_swarm'], kani=[K_HTTP_SWARM], level='proof',
        technique='Verus contracts (one-step refinement of a reference tracker) on the real http TorrentData / LargePeerMap / TorrentMap functions, incl. a prophecy-style contract for indexmap entry()',
        claim='Every announce handled by an HTTP swarm worker refines the reference tracker for all states and inputs: counts exclude the announcer, stopped removes, latest wins, left = 0 means seeder, a never-seen torrent behaves like an empty one, and every other torrent is untouched (frame).',
        note='Assumes the dependency contract for indexmap (incl. entry/or_default) and the hand-off contracts of the inline map; scrape (iterator loop) and clean (retain closure) are not in the Verus unit.',
        not_reached=['TorrentMap::handle_scrape_request (iterator adapters, BTreeMap)', 'TorrentMap::clean (retain closure)'],
    ),
    'C08': dict(
        verus=['ws_swarm'], kani=[], level='proof',
        technique='Verus contracts (one-step refinement + ownership guard) on the real ws TorrentMap / TorrentData functions; indexmap entries as transparent structs holding the map borrow',
        claim='For all states and announces: an announce naming a peer id stored by another connection (socket worker id + slot key) changes nothing and produces no message; every other announce follows the reference transition (stopped removes, left = 0 seeder, owner fixed at creation), gets exactly one reply, last, to the sender, with counts of the updated table; closing removes exactly the named entry; other torrents untouched.',
        note='handle_offers is a hand-off contract (closure + zip loop); scrape and clean are not in the Verus unit; which entries a closing connection names is decided in async socket code (not reached).',
        not_reached=['TorrentMap::handle_scrape_request (iterator loop, hashbrown)', 'TorrentMap::clean / TorrentData::clean_and_get_num_peers (retain closures)',
                     'ConnectionReader / ConnectionCleanupData (async): announced_info_hashes bookkeeping'],
    ),
    'C09': dict(
        verus=['ws_swarm'], kani=[], level='proof',
        technique='Verus contract on the real TorrentData::handle_answer (all table sizes): forwarded iff the addressed peer is stored and holds a matching unused expectation, which is then consumed',
        claim='An answer is forwarded - to the offering peer\'s own connection - exactly when that peer is stored and an expectation (answerer, offer id) is recorded for it, and the expectation is removed; otherwise an error goes to the answerer (peer stored) or nothing happens (peer not stored).',
        note='handle_offers (offer fan-out, recording of expectations) is outside Verus\' subset: assumed hand-off contract, not proved here; expiry of expectations is C10.',
        not_reached=['TorrentData::handle_offers (closure + zip loop): recipients, count min(offers, max_offers, others)', 'extract_response_peers (ws)'],
    ),
    'C10': dict(
        verus=['udp_swarm', 'http_swarm', 'ws_swarm'], kani=[K_COMMON_ADDR, K_UDP_SWARM, K_HTTP_SWARM], level='proof',
        technique='Kani function contracts / full-domain harnesses on ValidUntil::{new_with_now,valid}; Verus contracts for the deadline refresh in the three announce paths; Kani harnesses on the real retain-based cleaning functions',
        claim='valid(now) holds exactly while now < deadline and new_with_now(now, age) sets deadline = now + age (all u32 values, no-overflow precondition stated); every (re-)announce stores the deadline it is handed (udp, http) or clock sample + max_peer_age (ws); inline-map cleaning keeps exactly the entries with deadline > now (complete), heap-map cleaning the same within a stated bound.',
        note='u32 wrap of now + age is a stated precondition (uptime + configured age < 2^32 s); that workers refresh their clock sample is event-loop code (not reached); ws offer expiry is covered only by the hand-off note of C09.',
        assumptions=['machine arithmetic: now + max age <= u32::MAX (the clock itself panics at the same horizon)'],
        not_reached=['socket/swarm worker loops refreshing peer_valid_until', 'ws TorrentData::clean_and_get_num_peers (nested retain)'],
    ),
    'C11': dict(
        verus=['udp_handler'], kani=[], level='proof',
        technique='Verus contracts: AccessList::allows against its specification; permission precondition list_allows on the swarm entry points of both UDP back ends',
        claim='UDP: AccessList::allows equals the reference decision for every mode/list/hash; no announce reaches swarm state unless the list in force allows the hash, and a forbidden hash gets an error reply carrying the transaction id.',
        note='http/ws gates live in async fns (not reached); reload and cleaning are decided by other units where present.',
    ),
    'C12': dict(
        verus=['udp_swarm', 'udp_handler', 'http_swarm', 'ws_swarm'], kani=[K_UDP_PROTO, K_WS_PROTO, K_HTTP_PROTO], level='other',
        technique='Verus: absence of overflow / out-of-range index / failing unwrap in every extracted request-handling function for all inputs; Kani default checks on the real parsers with symbolic bytes',
        claim='Every request-handling function under contract (udp/http/ws swarm and udp handlers) is proved free of arithmetic overflow, out-of-bounds indexing and failing unwrap/expect for all field values (numwant i32::MIN, left < 0, max_response_peers 0/1, ...); the udp request parser, the ws identifier decoder and the http identifier decoder are panic-free on all inputs up to the stated lengths.',
        explanation='partial by construction: allocation bounds, httparse, the memchr query splitter and serde_json / simd-json / serde_bencode are not reached; parser harnesses are bounded by input length.',
        note='preconditions of the proved functions are type invariants (wf) and nothing about request fields.',
        not_reached=['allocation bound (no heap model)', 'httparse, memchr splitter (runtime CPU detection)', 'serde_json / simd-json / serde_bencode', 'aquatic_peer_id regexes', 'udp Response::parse_bytes (client side)'],
    ),
    'C13': dict(
        verus=[], kani=[K_UDP_PROTO], level='proof',
        technique='Kani/CBMC harnesses on the real udp_protocol parser/writers against an independent BEP 15 byte-layout oracle (symbolic datagrams)',
        claim='Every datagram of up to 128 bytes is classified and decoded exactly as BEP 15 prescribes (connect, announce with extension bytes, all four events, rejects); writers emit exactly the BEP 15 layout and round-trip.',
        note='list-carrying messages (scrape, replies with peers) are bounded by list length and labelled so; zerocopy/byteorder internals are executed symbolically, not trusted.',
    ),
    'C15': dict(
        verus=[], kani=[K_WS_PROTO], level='other',
        technique='Kani/CBMC harnesses on the real TwentyByteVisitor::visit_str and serialize_20_bytes (symbolic strings / identifiers)',
        claim='20-byte identifiers encode to exactly 20 characters U+00<byte> (complete, all 2^160 identifiers) and decode back; the decoder accepts exactly the 20-character strings in U+0000..U+00FF among all strings of up to 22 characters (bounded).',
        explanation='partial: only the identifier codec is under contract; whole-message JSON round trips go through serde_json / simd-json, which neither back end reaches. The decoder harness is bounded by string length (22 chars), the encoder harness is complete.',
        note='serde error construction is replaced by a message-ignoring error type; format! is stubbed (message text is not part of the property).',
        not_reached=['InMessage / OutMessage JSON round trip (serde_json, simd-json)', 'text vs binary WebSocket frames'],
    ),
    'C14': dict(
        verus=[], kani=[K_HTTP_PROTO], level='other',
        technique='Kani/CBMC harnesses on the real urlencode_20_bytes / urldecode_20_bytes',
        claim='Percent-encoding of 20-byte identifiers is exactly %hh x 20 and round-trips for all identifiers (complete); the decoder accepts exactly 20 well-formed units among all ASCII unit strings of up to 21 units (bounded).',
        explanation='partial: only the identifier codec is under contract; the memchr-driven query splitter, the bencode reply writers and the serde_bencode reader are not reached by this check.',
        note='anyhow error construction runs for real except format!, which is stubbed.',
        not_reached=['AnnounceRequest/ScrapeRequest::parse_query_string (memchr runtime CPU detection)', 'Response::parse_bytes (serde_bencode)', 'reply writers vs independent bencode encoder'],
    ),
    'C18': dict(
        verus=['buffers'], kani=[], level='other',
        explanation='deductive: 11 arithmetic lemmas (tracker x back end x reply kind) over constants extracted from the source; 4 are proved, 7 fail and are genuine, demonstrated defects listed in known_findings.json (reported as KNOWN-FINDING, exit 0); any other failing lemma is a new violation.',
        technique='Verus arithmetic lemmas over buffer constants extracted from the source: for every accepted configuration and every reply the limits allow, the serialised length is at most the fixed buffer',
        claim='Per tracker x back end x reply kind, the lemma "accepted configuration => worst-case reply length <= buffer" is either proved (connect and scrape replies of both UDP back ends) or fails and is a listed finding (UDP announce replies under an unbounded max_response_peers; HTTP announce and scrape replies, the latter already with the default configuration).',
        note='reply lengths are the BEP 15 / bencode layouts (decided by C13 / C14 on the real writers); list lengths are bounded by C02 / C06 / C07; "accepted" is what run() validates today (nothing: anchored by ABSENT directives, so that added validation makes the unit undecided instead of raising a stale alarm).',
        assumptions=['udp reply = 16 / 20+6n / 20+18n / 8+12m bytes; http scrape entry >= 70 bytes (from the writers, see C13/C14)',
                     'a scrape request must fit REQUEST_BUF_LEN (io_uring) / REQUEST_BUFFER_SIZE (http)'],
        not_reached=['send_response / prepare_entry / write_response glue (I/O)', 'ws tracker (no fixed reply buffer)'],
    ),
    'C20': dict(
        verus=[], kani=[K_UDP_SWARM], level='other',
        technique='Kani/CBMC harnesses on the real PeerMap::announce (statistics messages recorded through a stubbed Sender::try_send) and the real cleaning functions',
        claim='For every inline-map state and announce with per-client statistics on, the change in the number of stored peers carrying each peer id equals PeerAdded minus PeerRemoved messages for that id; cleaning functions return the counts of the peers that remain.',
        explanation='partial: the tally contract is decided for the per-torrent map (inline representation complete, heap representation bounded); the statistics worker, the export file contents and its atomic replacement (crash points, concurrent readers) are outside what a function contract can express.',
        note='Sender::try_send is replaced by a recorder; export/rename and the statistics worker are not reached.',
        not_reached=['clean_and_update_statistics: export file contents, tmp + rename atomicity, crash points', 'statistics worker tally map', 'shard-level totals (locks)'],
    ),
    'C05': dict(
        verus=[], kani=[K_UDP_VALIDATOR], level='proof',
        technique='Kani/CBMC full-domain loop-free harnesses on the real create_connection_id / connection_id_valid with the keyed hash as an uninterpreted function',
        claim='For every validator state, source address and 64-bit id the accept/reject decision equals the specification (right MAC, not expired, not more than 60 s in the future), in machine arithmetic, with no overflow.',
        note='Keyed BLAKE3 is modelled as an uninterpreted function (PRF assumption is cryptographic); clock refresh loops are not reached.',
        assumptions=['keyed BLAKE3 (ConnectionValidator::hash) modelled as an uninterpreted function of (elapsed bytes, ip); unpredictability without the key is a cryptographic assumption',
                     'constant_time_eq == slice equality (its optimisation barrier is inline asm)',
                     'max_connection_age <= u32::MAX (what ConnectionValidator::new stores: a u32 widened to u64)'],
        not_reached=['update_elapsed / clock refresh every 256 iterations / 5 s pulse (event loops)', 'key generation, blake3 internals'],
    ),
}

NOT_APPLICABLE = {
    'C04': 'linearizability / deadlock freedom quantify over thread interleavings; Kani has no threads and Verus would need its own permission types in place of parking_lot/Arc (a rewrite, i.e. a model)',
    'C16': 'decided by async fns over glommio streams and channel meshes; Verus has no async, aquatic_http does not build under Kani (glommio -> backtrace); property is over connection histories x worker counts x TCP segmentation',
    'C17': 'routing through glommio channel meshes, slot maps and task races: whole-system and schedule-dependent, no per-function contract expresses it',
    'C19': 'thread death, JoinHandle polling and a ten-second latency bound: liveness/timing over OS threads',
}
