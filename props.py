"""Property -> units table (what decides what).  Tags are the obligation names printed in VIOLATION lines."""

TRUSTED_BASE = [
    'Verus 0.2026.09.13 + bundled Z3', 'Kani 0.68.0 + CBMC 6.11 + CaDiCaL/kissat',
    'rustc derive expansions; Kani models of std (memcpy/memcmp, allocation never fails)',
    'extraction rules E1-E3, D1-D5, V1 (see DESIGN.md section 3.1): verified text = real items minus log statements / metrics-feature code',
]
STANDING_ASSUMPTIONS = [
    'socket / timer / async event loops, unsafe io_uring code and file I/O are unverified (DESIGN.md section 8)',
]

# ---------------------------------------------------------------- Kani units
K_UDP_VALIDATOR = dict(
    unit='udp_validator', package='aquatic_udp',
    inject=[('crates/udp/src/workers/socket/validator.rs', 'validator_harness.rs')],
    harnesses=[
        dict(name='workers::socket::validator::verif_kani::create_layout', complete=True, timeout=300,
             tags=['C05.create.layout.time', 'C05.create.layout.mac'], functions=['ConnectionValidator::create_connection_id'],
             no_playback='hash is stubbed by an uninterpreted function'),
        dict(name='workers::socket::validator::verif_kani::valid_spec', complete=True, timeout=300,
             tags=['C05.valid.mac', 'C05.valid.expiry', 'C05.valid.future', 'C05.valid.accepts'], functions=['ConnectionValidator::connection_id_valid'],
             no_playback='hash is stubbed by an uninterpreted function'),
        dict(name='workers::socket::validator::verif_kani::issue_then_check', complete=True, timeout=300,
             tags=['C05.window.same_ip', 'C05.window.other_ip'], functions=['ConnectionValidator::create_connection_id', 'ConnectionValidator::connection_id_valid'],
             no_playback='hash is stubbed by an uninterpreted function'),
        dict(name='workers::socket::validator::verif_kani::altered_id', complete=True, timeout=300,
             tags=['C05.altered'], functions=['ConnectionValidator::connection_id_valid'],
             no_playback='hash is stubbed by an uninterpreted function'),
    ],
)

PROPS = {
    'C01': dict(
        verus=['udp_swarm'], kani=[], level='proof',
        technique='Verus contracts (refinement of a reference tracker by one-step contracts) on the real PeerMap / LargePeerMap functions, extracted mechanically each run',
        claim='Every public operation of the per-torrent UDP peer map is proved, for all states and inputs, to refine the reference tracker transition (counts exclude the announcer, stopped removes, latest wins, scrape counts everything); induction over histories follows from the one-step contracts.',
        note='Assumes the dependency contract for indexmap and the hand-off contracts of the inline map (SmallPeerMap) and try_shrink; shard/lock level and cleaning are not covered by the proof part.',
        assumptions=['hand-off contracts of SmallPeerMap::* and LargePeerMap::try_shrink are assumed in the Verus unit (discharged separately by Kani where listed)',
                     'dependency contract for indexmap::IndexMap (insert appends or overwrites in place; swap_remove removes the key)'],
        not_reached=['TorrentMapShards (locks, Arc, hashbrown): shard-level frame'],
    ),
    'C02': dict(
        verus=['udp_swarm'], kani=[], level='proof',
        technique='Verus contracts on the real extract_response_peers / PeerMap::announce (all sizes, all RNG outcomes, all numwant values)',
        claim='UDP: the peer list of every announce reply is duplicate-free, a subset of the stored peers minus the announcer, at most min(numwant, max) long (non-positive numwant = max), complete when the swarm is small and at least limit-1 otherwise; index arithmetic of the two-half selection is proved safe.',
        note='http and ws peer selection are added by later units; inline-map selection (SmallPeerMap::extract_response_peers) is a hand-off contract.',
    ),
    'C03': dict(
        verus=['udp_handler', 'udp_swarm'], kani=[], level='proof',
        technique='Verus contracts: key construction from the datagram source in TorrentMaps::announce / PeerMap::announce (request.ip_address cannot influence the post-state)',
        claim='UDP: the address family and the IP octets handed to the per-torrent map are those of the datagram source, and the stored key is (that ip, request.port).',
        note='recv_from glue, CanonicalSocketAddr and the http/ws paths are covered by other units or not reached.',
    ),
    'C06': dict(
        verus=['udp_handler', 'udp_swarm'], kani=[], level='proof',
        technique='Verus contracts on the real handle_request of both socket back ends (mio and io_uring) with permission preconditions on the swarm entry points',
        claim='For every request and source: connect is always answered with the echoed transaction id; announce/scrape are answered iff the connection id is valid for the source; the reply kind, address family and transaction id are those the request calls for; the swarm is never reached without a valid id.',
        note='validator and shard maps are contract stubs (C05 / C01 decide them); datagram I/O loops, source-port-0 filtering and one-datagram-per-datagram are not reached.',
    ),
    'C11': dict(
        verus=['udp_handler'], kani=[], level='proof',
        technique='Verus contracts: AccessList::allows against its specification; permission precondition list_allows on the swarm entry points of both UDP back ends',
        claim='UDP: AccessList::allows equals the reference decision for every mode/list/hash; no announce reaches swarm state unless the list in force allows the hash, and a forbidden hash gets an error reply carrying the transaction id.',
        note='http/ws gates live in async fns (not reached); reload and cleaning are decided by other units where present.',
    ),
    'C05': dict(
        verus=[], kani=[K_UDP_VALIDATOR], level='proof',
        technique='Kani/CBMC full-domain loop-free harnesses on the real create_connection_id / connection_id_valid with the keyed hash as an uninterpreted function',
        claim='For every validator state, source address and 64-bit id the accept/reject decision equals the specification (right MAC, not expired, not more than 60 s in the future), in machine arithmetic, with no overflow.',
        note='Keyed BLAKE3 is modelled as an uninterpreted function (PRF assumption is cryptographic); clock refresh loops are not reached.',
        assumptions=['keyed BLAKE3 (ConnectionValidator::hash) modelled as an uninterpreted function of (elapsed bytes, ip); unpredictability without the key is a cryptographic assumption',
                     'constant_time_eq == slice equality (its optimisation barrier is inline asm)',
                     'max_connection_age <= u32::MAX (what ConnectionValidator::new stores: a u32 widened to u64)'],
        not_reached=['update_elapsed / clock refresh every 256 iterations / 5 s pulse (event loops)', 'key generation, blake3 internals'],
    ),
}

NOT_APPLICABLE = {
    'C04': 'linearizability / deadlock freedom quantify over thread interleavings; Kani has no threads and Verus would need its own permission types in place of parking_lot/Arc (a rewrite, i.e. a model)',
    'C16': 'decided by async fns over glommio streams and channel meshes; Verus has no async, aquatic_http does not build under Kani (glommio -> backtrace); property is over connection histories x worker counts x TCP segmentation',
    'C17': 'routing through glommio channel meshes, slot maps and task races: whole-system and schedule-dependent, no per-function contract expresses it',
    'C19': 'thread death, JoinHandle polling and a ten-second latency bound: liveness/timing over OS threads',
}
