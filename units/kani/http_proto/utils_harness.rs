#[cfg(kani)]
mod verif_kani {
    //! C14 / C12: percent-encoded 20-byte identifiers of the HTTP tracker, on the real encoder / decoder.
    use super::*;

    fn fmt_stub(_args: std::fmt::Arguments<'_>) -> String { String::new() }
    /// anyhow captures a backtrace for every error (environment lookup, unwinding machinery): irrelevant to the property
    fn bt_stub() -> std::backtrace::Backtrace { std::backtrace::Backtrace::disabled() }

    fn hexval(c: u8) -> Option<u8> {
        match c { b'0'..=b'9' => Some(c - b'0'), b'a'..=b'f' => Some(c - b'a' + 10), b'A'..=b'F' => Some(c - b'A' + 10), _ => None }
    }
    const LOWER: &[u8; 16] = b"0123456789abcdef";

    /// encoder: "%hh" x 20, lowercase hex; decoder inverts it
    #[kani::proof]
    #[kani::unwind(64)]
    #[kani::stub(std::fmt::format, fmt_stub)]
    #[kani::stub(std::backtrace::Backtrace::capture, bt_stub)]
    fn urlencode_exact_and_roundtrip() {
        let data: [u8; 20] = kani::any();
        let mut out = [0u8; 64];
        let mut cur = std::io::Cursor::new(&mut out[..]);
        urlencode_20_bytes(data, &mut cur).unwrap();
        let n = cur.position() as usize;
        assert!(n == 60, "[C14.ident.encode.len] 60 bytes");
        let mut i = 0;
        while i < 20 {
            assert!(out[3 * i] == b'%' && out[3 * i + 1] == LOWER[(data[i] >> 4) as usize] && out[3 * i + 2] == LOWER[(data[i] & 15) as usize],
                "[C14.ident.encode.layout] %hh per byte, lowercase hex");
            i += 1;
        }
        let s = std::str::from_utf8(&out[..60]).unwrap();
        let back = urldecode_20_bytes(s);
        assert!(matches!(back, Ok(b) if b == data), "[C14.ident.roundtrip] urldecode(urlencode(x)) == x");
    }

    /// decoder over every string of up to 8 units in front of a fixed 12-unit tail is too expensive symbolically; instead every
    /// unit position is symbolic in turn: the string is `prefix (k plain bytes) ++ unit ++ suffix (plain bytes)` with all bytes symbolic ASCII
    #[kani::proof]
    #[kani::unwind(70)]
    #[kani::stub(std::fmt::format, fmt_stub)]
    #[kani::stub(std::backtrace::Backtrace::capture, bt_stub)]
    fn urldecode_exact() {
        // a string of `n` units (n <= 21), each unit either one char <= U+00FF (non-'%') or '%' + two arbitrary ASCII bytes
        let n: usize = kani::any();
        kani::assume(n <= 21);
        let mut buf = [0u8; 21 * 3];
        let mut want = [0u8; 21];
        let mut ok = true;
        let mut len = 0;
        let mut i = 0;
        while i < n {
            if kani::any() {
                let a: u8 = kani::any();
                let b: u8 = kani::any();
                kani::assume(a < 128 && b < 128);
                buf[len] = b'%'; buf[len + 1] = a; buf[len + 2] = b;
                len += 3;
                match (hexval(a), hexval(b)) { (Some(x), Some(y)) => want[i] = x * 16 + y, _ => { if i < 20 { ok = false; } } }
            } else {
                let c: u8 = kani::any();
                kani::assume(c < 128 && c != b'%');
                buf[len] = c;
                len += 1;
                want[i] = c;
            }
            i += 1;
        }
        let s = unsafe { std::str::from_utf8_unchecked(&buf[..len]) };
        let r = urldecode_20_bytes(s);
        match r {
            Ok(arr) => {
                assert!(n == 20, "[C14.ident.decode.exactly_20] identifiers that are not exactly 20 bytes are rejected");
                assert!(ok, "[C14.ident.decode.bad_hex] a '%' not followed by two hex digits is rejected");
                let mut i = 0;
                while i < 20 { assert!(arr[i] == want[i], "[C14.ident.decode.value] each unit decodes to its byte"); i += 1; }
            }
            Err(_) => assert!(!(n == 20 && ok), "[C14.ident.decode.accept] 20 well-formed units are accepted (hex digits in either case)"),
        }
        kani::cover!(r.is_ok());
    }

    /// quick tier: encoder layout only
    #[kani::proof]
    #[kani::unwind(64)]
    fn urlencode_layout() {
        let data: [u8; 20] = kani::any();
        let mut out = [0u8; 64];
        let mut cur = std::io::Cursor::new(&mut out[..]);
        urlencode_20_bytes(data, &mut cur).unwrap();
        assert!(cur.position() == 60, "[C14.ident.encode.len] 60 bytes");
        let i: usize = kani::any();
        kani::assume(i < 20);
        assert!(out[3 * i] == b'%' && out[3 * i + 1] == LOWER[(data[i] >> 4) as usize] && out[3 * i + 2] == LOWER[(data[i] & 15) as usize],
            "[C14.ident.encode.layout] %hh per byte, lowercase hex");
    }

    /// quick tier: every string of up to 8 units (plain ASCII byte or %xx with arbitrary ASCII x) is too short, whatever its length in bytes
    #[kani::proof]
    #[kani::unwind(26)]
    #[kani::stub(std::fmt::format, fmt_stub)]
    #[kani::stub(std::backtrace::Backtrace::capture, bt_stub)]
    fn urldecode_short_rejected() {
        let n: usize = kani::any();
        kani::assume(n <= 8);
        let mut buf = [0u8; 24];
        let mut len = 0;
        let mut i = 0;
        while i < n {
            if kani::any() {
                let a: u8 = kani::any(); let b: u8 = kani::any();
                kani::assume(a < 128 && b < 128);
                buf[len] = b'%'; buf[len + 1] = a; buf[len + 2] = b;
                len += 3;
            } else {
                let c: u8 = kani::any();
                kani::assume(c < 128 && c != b'%');
                buf[len] = c;
                len += 1;
            }
            i += 1;
        }
        let s = unsafe { std::str::from_utf8_unchecked(&buf[..len]) };
        assert!(urldecode_20_bytes(s).is_err(), "[C14.ident.decode.exactly_20] identifiers that are not exactly 20 bytes are rejected");
        kani::cover!(len == 20);
    }

    /// quick tier: every string of exactly 20 ASCII bytes: accepted iff it contains no '%', and then it decodes to itself
    /// (a 20-byte string that contains an escape encodes fewer than 20 bytes)
    #[kani::proof]
    #[kani::unwind(24)]
    #[kani::stub(std::fmt::format, fmt_stub)]
    #[kani::stub(std::backtrace::Backtrace::capture, bt_stub)]
    fn urldecode_len20_ascii() {
        let buf: [u8; 20] = kani::any();
        let mut has_pct = false;
        let mut i = 0;
        while i < 20 { kani::assume(buf[i] < 128); if buf[i] == b'%' { has_pct = true; } i += 1; }
        let s = unsafe { std::str::from_utf8_unchecked(&buf[..]) };
        match urldecode_20_bytes(s) {
            Ok(arr) => {
                assert!(!has_pct, "[C14.ident.decode.exactly_20] a 20-character value containing an escape encodes fewer than 20 bytes and is rejected");
                assert!(arr == buf, "[C14.ident.decode.value] plain characters decode to themselves");
            }
            Err(_) => assert!(has_pct, "[C14.ident.decode.accept] 20 plain characters are accepted"),
        }
    }
}
