#[cfg(kani)]
mod verif_kani {
    //! C03: canonical socket addresses; C10: ValidUntil arithmetic.  All harnesses are loop-free over the full input domain.
    use super::*;
    // explicit imports: the harness must not depend on which names the real file happens to import
    use std::net::{Ipv4Addr, Ipv6Addr, SocketAddr, SocketAddrV4, SocketAddrV6};

    pub fn any_sockaddr() -> SocketAddr {
        if kani::any() {
            SocketAddr::V4(SocketAddrV4::new(Ipv4Addr::from(kani::any::<[u8; 4]>()), kani::any()))
        } else {
            SocketAddr::V6(SocketAddrV6::new(Ipv6Addr::from(kani::any::<[u8; 16]>()), kani::any(), kani::any(), kani::any()))
        }
    }

    /// specification of canonicalisation, written independently of the code (byte comparisons only)
    pub fn canon_spec(a: SocketAddr) -> SocketAddr {
        match a {
            SocketAddr::V4(_) => a,
            SocketAddr::V6(a6) => {
                let o = a6.ip().octets();
                let mut mapped = o[10] == 0xff && o[11] == 0xff;
                let mut i = 0;
                while i < 10 {
                    mapped = mapped && o[i] == 0;
                    i += 1;
                }
                if mapped {
                    SocketAddr::V4(SocketAddrV4::new(Ipv4Addr::new(o[12], o[13], o[14], o[15]), a6.port()))
                } else {
                    a
                }
            }
        }
    }

    // ---- function contracts on the real functions (attributes spliced above them), proved here ----
    #[kani::proof_for_contract(CanonicalSocketAddr::new)]
    #[kani::unwind(20)]
    fn contract_canonical_new() {
        let _ = CanonicalSocketAddr::new(any_sockaddr());
    }

    #[kani::proof_for_contract(ValidUntil::new_with_now)]
    fn contract_new_with_now() {
        let _ = ValidUntil::new_with_now(SecondsSinceServerStart(kani::any()), kani::any());
    }

    #[kani::proof]
    #[kani::unwind(20)]
    fn canonical_views() {
        let a = any_sockaddr();
        let c = CanonicalSocketAddr::new(a);
        assert!(c.get() == canon_spec(a), "[C03.canon.new] new() strips exactly the ::ffff:a.b.c.d form and keeps the port");
        assert!(c.is_ipv4() == matches!(canon_spec(a), SocketAddr::V4(_)), "[C03.canon.is_ipv4]");
        match c.get_ipv4() {
            Some(x) => assert!(c.is_ipv4() && x == c.get(), "[C03.canon.get_ipv4] Some only for IPv4, and then the address itself"),
            None => assert!(!c.is_ipv4(), "[C03.canon.get_ipv4] None only for IPv6"),
        }
        let m = c.get_ipv6_mapped();
        match c.get() {
            SocketAddr::V4(v4) => {
                let o = v4.ip().octets();
                let want = SocketAddr::V6(SocketAddrV6::new(
                    Ipv6Addr::from([0, 0, 0, 0, 0, 0, 0, 0, 0, 0, 0xff, 0xff, o[0], o[1], o[2], o[3]]), v4.port(), 0, 0));
                assert!(m == want, "[C03.canon.mapped] an IPv4 peer is addressed as ::ffff:a.b.c.d, same port, on the dual-stack socket");
            }
            v6 => assert!(m == v6, "[C03.canon.mapped] IPv6 addresses are used unchanged"),
        }
        assert!(CanonicalSocketAddr::new(m) == c, "[C03.canon.roundtrip] canonicalising the send address gives the stored address");
        // a dual-stack source and the plain IPv4 source are one and the same peer address
        if let SocketAddr::V4(v4) = c.get() {
            let plain = CanonicalSocketAddr::new(SocketAddr::V4(v4));
            assert!(plain == c, "[C03.canon.dual_stack_same_peer]");
        }
        kani::cover!(c.is_ipv4());
        kani::cover!(!c.is_ipv4());
    }

    #[kani::proof]
    fn valid_until_exact() {
        let now: u32 = kani::any();
        let off: u32 = kani::any();
        kani::assume(now as u64 + off as u64 <= u32::MAX as u64);
        let v = ValidUntil::new_with_now(SecondsSinceServerStart(now), off);
        let t: u32 = kani::any();
        let r = v.valid(SecondsSinceServerStart(t));
        assert!(r == ((t as u64) < now as u64 + off as u64), "[C10.valid_until.exact] valid exactly while the clock is below now + max age");
        kani::cover!(r);
        kani::cover!(!r);
    }
}
