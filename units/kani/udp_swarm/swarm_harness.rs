#[cfg(kani)]
mod verif_kani {
    //! Hand-off contracts of the inline peer map (complete: every ArrayVec state) and of the heap peer map's
    //! closure-bearing functions (bounded by the number of entries), on the real code.
    //! `indexmap` is the heap-free executable model /verif/models/indexmap_model in this build.
    use super::*;
    use aquatic_common::SecondsSinceServerStart;
    use aquatic_common::{IndexMap, ValidUntil};
    use arrayvec::ArrayVec;
    use crossbeam_channel::Sender;
    use rand::prelude::SmallRng;

    pub trait AnyIp: Ip { fn any_ip() -> Self; }
    impl AnyIp for Ipv4AddrBytes { fn any_ip() -> Self { Ipv4AddrBytes(kani::any()) } }
    impl AnyIp for Ipv6AddrBytes { fn any_ip() -> Self { Ipv6AddrBytes(kani::any()) } }

    fn any_key<I: AnyIp>() -> ResponsePeer<I> { ResponsePeer { ip_address: I::any_ip(), port: Port(kani::any::<u16>().into()) } }
    fn any_peer() -> Peer {
        Peer { peer_id: PeerId(kani::any()), is_seeder: kani::any(), valid_until: ValidUntil::new_raw(SecondsSinceServerStart::new_raw(kani::any())) }
    }
    fn peer_eq(a: &Peer, b: &Peer) -> bool {
        a.peer_id == b.peer_id && a.is_seeder == b.is_seeder
            && a.valid_until.valid(SecondsSinceServerStart::new_raw(0)) == b.valid_until.valid(SecondsSinceServerStart::new_raw(0))
            && deadline(a) == deadline(b)
    }
    /// the deadline as a number (ValidUntil has no getter): smallest now for which valid(now) is false
    fn deadline(p: &Peer) -> u32 { unsafe { std::mem::transmute::<ValidUntil, u32>(p.valid_until) } }

    fn bytes_eq(a: &[u8; 20], b: &[u8; 20]) -> bool { let mut i = 0; while i < 20 { if a[i] != b[i] { return false; } i += 1; } true }

    type E<I> = (ResponsePeer<I>, Peer);

    /// every inline-map state: 0, 1 or 2 entries, all fields symbolic, keys distinct (the type's invariant)
    fn any_small<I: AnyIp>() -> SmallPeerMap<I> {
        let mut m = SmallPeerMap(ArrayVec::new());
        let n: usize = kani::any();
        kani::assume(n <= SMALL_PEER_MAP_CAPACITY);
        if n >= 1 { m.0.push((any_key(), any_peer())); }
        if n >= 2 { let k = any_key(); kani::assume(k != m.0[0].0); m.0.push((k, any_peer())); }
        m
    }
    fn snapshot<I: Ip>(m: &SmallPeerMap<I>) -> ([Option<E<I>>; 2], usize) {
        let mut a = [None, None];
        let mut i = 0;
        while i < m.0.len() { a[i] = Some(m.0[i]); i += 1; }
        (a, m.0.len())
    }
    fn count_seeders<I: Ip>(a: &[Option<E<I>>], n: usize) -> usize {
        let mut c = 0; let mut i = 0;
        while i < n { if a[i].unwrap().1.is_seeder { c += 1; } i += 1; }
        c
    }

    fn small_remove<I: AnyIp>() {
        let mut m = any_small::<I>();
        let (old, n) = snapshot(&m);
        let key = any_key::<I>();
        let r = m.remove(&key);
        let mut pos = None; let mut i = 0;
        while i < n { if old[i].unwrap().0 == key { pos = Some(i); } i += 1; }
        match pos {
            None => {
                assert!(r.is_none(), "[C01.udp.small.remove.absent] absent key: None");
                assert!(m.0.len() == n, "[C01.udp.small.remove.absent] absent key: map unchanged");
                let mut i = 0;
                while i < n { assert!(m.0[i].0 == old[i].unwrap().0 && peer_eq(&m.0[i].1, &old[i].unwrap().1), "[C01.udp.small.remove.absent] absent key: map unchanged"); i += 1; }
            }
            Some(p) => {
                assert!(r.is_some() && peer_eq(&r.unwrap(), &old[p].unwrap().1), "[C01.udp.small.remove.present] returns the stored record");
                assert!(m.0.len() == n - 1, "[C01.udp.small.remove.present] exactly one entry removed");
                // the other entry (if any) is kept, in order
                if n == 2 {
                    let o = old[1 - p].unwrap();
                    assert!(m.0[0].0 == o.0 && peer_eq(&m.0[0].1, &o.1), "[C01.udp.small.remove.present] the other entry is untouched");
                }
            }
        }
        kani::cover!(pos.is_some());
    }
    #[kani::proof] #[kani::unwind(22)] fn small_remove_v4() { small_remove::<Ipv4AddrBytes>() }
    #[kani::proof] #[kani::unwind(22)] fn small_remove_v6() { small_remove::<Ipv6AddrBytes>() }

    fn small_insert_etc<I: AnyIp>() {
        let mut m = any_small::<I>();
        let (old, n) = snapshot(&m);
        assert!(m.is_full() == (n == SMALL_PEER_MAP_CAPACITY), "[C01.udp.small.is_full]");
        let (s, l) = m.num_seeders_leechers();
        assert!(s == count_seeders(&old, n) && s + l == n, "[C01.udp.small.nsl] seeders = stored seeders, seeders + leechers = stored peers");
        let max: usize = kani::any();
        let v = m.extract_response_peers(max);
        let want = if max < n { max } else { n };
        assert!(v.len() == want, "[C02.udp.small.extract.len] first min(max, len) keys");
        let mut i = 0;
        while i < want { assert!(v[i] == old[i].unwrap().0, "[C02.udp.small.extract.keys] first min(max, len) keys, in order"); i += 1; }
        if n < SMALL_PEER_MAP_CAPACITY {
            let k = any_key::<I>();
            let mut fresh = true; let mut i = 0;
            while i < n { if old[i].unwrap().0 == k { fresh = false; } i += 1; }
            kani::assume(fresh);
            let p = any_peer();
            m.insert(k, p);
            assert!(m.0.len() == n + 1 && m.0[n].0 == k && peer_eq(&m.0[n].1, &p), "[C01.udp.small.insert] appended at the end");
            let mut i = 0;
            while i < n { assert!(m.0[i].0 == old[i].unwrap().0 && peer_eq(&m.0[i].1, &old[i].unwrap().1), "[C01.udp.small.insert] existing entries untouched"); i += 1; }
        }
        kani::cover!(n == 2);
    }
    #[kani::proof] #[kani::unwind(22)] fn small_insert_etc_v4() { small_insert_etc::<Ipv4AddrBytes>() }
    #[kani::proof] #[kani::unwind(22)] fn small_insert_etc_v6() { small_insert_etc::<Ipv6AddrBytes>() }

    fn cfg_no_stats() -> Config {
        let mut c = Config::default();
        c.statistics.peer_clients = false;
        c
    }

    fn small_clean<I: AnyIp>() {
        let mut m = any_small::<I>();
        let (old, n) = snapshot(&m);
        let config = cfg_no_stats();
        let mut msgs = Vec::new();
        let now: u32 = kani::any();
        let (s, l) = m.clean_and_get_num_peers(&config, &mut msgs, SecondsSinceServerStart::new_raw(now));
        let mut total = 0; let mut es = 0;
        let mut j = 0;
        while j < SMALL_PEER_MAP_CAPACITY {
            let mut c = 0; let mut i = 0; es = 0;
            while i < n {
                let e = old[i].unwrap();
                if deadline(&e.1) > now {
                    if c == j {
                        assert!(j < m.0.len() && m.0[j].0 == e.0 && peer_eq(&m.0[j].1, &e.1), "[C10.udp.small.clean.keeps_unexpired] a peer whose deadline is in the future is kept, unchanged, in order");
                    }
                    if e.1.is_seeder { es += 1; }
                    c += 1;
                }
                i += 1;
            }
            total = c;
            j += 1;
        }
        let w = total;
        assert!(m.0.len() == w, "[C10.udp.small.clean.removes_expired] a peer at or past its deadline is removed");
        assert!(s == es && s + l == w, "[C01.udp.small.clean.counts][C20.udp.small.clean.counts] returned counts are those of the remaining peers");
        assert!(msgs.is_empty(), "[C20.udp.small.clean.no_msgs_when_off]");
        kani::cover!(w < n);
    }
    #[kani::proof] #[kani::unwind(22)] fn small_clean_v4() { small_clean::<Ipv4AddrBytes>() }

    fn small_to_large<I: AnyIp>() {
        let m = any_small::<I>();
        let (old, n) = snapshot(&m);
        let l = m.to_large();
        assert!(l.peers.model_len() == n, "[C01.udp.small.to_large.same_entries]");
        let mut i = 0;
        while i < n {
            let (k, v) = l.peers.model_entry(i);
            assert!(*k == old[i].unwrap().0 && peer_eq(v, &old[i].unwrap().1), "[C01.udp.small.to_large.same_entries] same entries, same order");
            i += 1;
        }
        assert!(l.num_seeders == count_seeders(&old, n), "[C01.udp.small.to_large.num_seeders] cached counter = stored seeders");
    }
    #[kani::proof] #[kani::unwind(22)] fn small_to_large_v4() { small_to_large::<Ipv4AddrBytes>() }

    // ---------------- heap map (bounded by N entries) ----------------
    fn any_large<I: AnyIp, const N: usize>() -> (LargePeerMap<I>, [Option<E<I>>; N], usize) {
        let mut m = LargePeerMap { peers: IndexMap::default(), num_seeders: 0 };
        let mut a: [Option<E<I>>; N] = [None; N];
        let n: usize = kani::any();
        kani::assume(n <= N);
        let mut i = 0;
        while i < n {
            let k = any_key::<I>();
            let mut j = 0;
            while j < i { kani::assume(a[j].unwrap().0 != k); j += 1; }
            let p = any_peer();
            a[i] = Some((k, p));
            m.peers.insert(k, p);
            if p.is_seeder { m.num_seeders += 1; }
            i += 1;
        }
        (m, a, n)
    }

    fn large_clean<I: AnyIp, const N: usize>() {
        let (mut m, old, n) = any_large::<I, N>();
        let config = cfg_no_stats();
        let mut msgs = Vec::new();
        let now: u32 = kani::any();
        let (s, l) = m.clean_and_get_num_peers(&config, &mut msgs, SecondsSinceServerStart::new_raw(now));
        // expected: the entries with deadline > now, in order.  Slot j of the result is compared with the j-th such entry;
        // all indices are loop constants (see the note in indexmap_model).
        let mut total = 0; let mut es = 0;
        let mut j = 0;
        while j < N {
            let mut c = 0; let mut i = 0; es = 0;
            while i < n {
                let e = old[i].unwrap();
                if deadline(&e.1) > now {
                    if c == j {
                        assert!(j < m.peers.model_len(), "[C10.udp.large.clean.keeps_unexpired] a peer whose deadline is in the future is kept");
                        let (k, v) = m.peers.model_entry(j);
                        let (kk, ek) = (*k, e.0);
                        assert!(kk == ek && peer_eq(v, &e.1), "[C10.udp.large.clean.keeps_unexpired] kept peers are unchanged and in order");
                    }
                    if e.1.is_seeder { es += 1; }
                    c += 1;
                }
                i += 1;
            }
            total = c;
            j += 1;
        }
        assert!(m.peers.model_len() == total, "[C10.udp.large.clean.removes_expired] a peer at or past its deadline is removed");
        assert!(m.num_seeders == es, "[C01.udp.large.clean.wf] cached seeder counter = stored seeders after cleaning");
        assert!(s == es && s + l == total, "[C01.udp.large.clean.counts][C20.udp.large.clean.counts] returned counts are those of the remaining peers");
        kani::cover!(total < n && total > 0);
    }
    #[kani::proof] #[kani::unwind(22)] fn large_clean_v4_3() { large_clean::<Ipv4AddrBytes, 3>() }
    #[kani::proof] #[kani::unwind(22)] fn large_clean_v4_5() { large_clean::<Ipv4AddrBytes, 5>() }

    fn large_try_shrink<I: AnyIp, const N: usize>() {
        let (mut m, old, n) = any_large::<I, N>();
        let ns = m.num_seeders;
        let r = m.try_shrink();
        assert!(r.is_some() == (n <= SMALL_PEER_MAP_CAPACITY), "[C01.udp.large.try_shrink.iff_fits] shrinks exactly when the peers fit inline");
        assert!(m.peers.model_len() == n && m.num_seeders == ns, "[C01.udp.large.try_shrink.self_unchanged]");
        if let Some(s) = r {
            assert!(s.0.len() == n, "[C01.udp.large.try_shrink.same_entries]");
            let mut i = 0;
            while i < n { assert!(s.0[i].0 == old[i].unwrap().0 && peer_eq(&s.0[i].1, &old[i].unwrap().1), "[C01.udp.large.try_shrink.same_entries] same entries, same order"); i += 1; }
        }
    }
    #[kani::proof] #[kani::unwind(22)] fn large_try_shrink_v4_4() { large_try_shrink::<Ipv4AddrBytes, 4>() }
}
