#[cfg(kani)]
mod verif_kani {
    //! C13 / C06 / C12: BEP 15 request layout.  The oracle composes big-endian integers at the offsets BEP 15 gives;
    //! it shares no code with zerocopy / byteorder.
    use super::*;
    use std::io::Cursor;

    fn be_u16(b: &[u8], o: usize) -> u16 { ((b[o] as u16) << 8) | b[o + 1] as u16 }
    fn be_i32(b: &[u8], o: usize) -> i32 {
        (((b[o] as u32) << 24) | ((b[o + 1] as u32) << 16) | ((b[o + 2] as u32) << 8) | b[o + 3] as u32) as i32
    }
    fn be_i64(b: &[u8], o: usize) -> i64 {
        (((be_i32(b, o) as u32 as u64) << 32) | (be_i32(b, o + 4) as u32 as u64)) as i64
    }
    fn bytes20(b: &[u8], o: usize) -> [u8; 20] {
        let mut r = [0u8; 20];
        let mut i = 0;
        while i < 20 { r[i] = b[o + i]; i += 1; }
        r
    }
    const MAGIC: i64 = 0x0000_0417_2710_1980;

    fn is_unsendable(r: &Result<Request, RequestParseError>) -> bool { matches!(r, Err(RequestParseError::Unsendable { .. })) }

    /// connect / announce / unknown action over every datagram of up to 128 bytes (announce: 98 bytes + extension bytes)
    #[kani::proof]
    #[kani::unwind(22)]
    fn parse_connect_announce() {
        let buf: [u8; 128] = kani::any();
        let len: usize = kani::any();
        kani::assume(len <= 128);
        let max: u8 = kani::any();
        let b = &buf[..len];
        if len >= 12 { kani::assume(be_i32(b, 8) != 2); }
        let r = Request::parse_bytes(b, max);
        if len < 12 {
            assert!(is_unsendable(&r), "[C13.req.short] fewer than 12 bytes: rejected, unanswerable");
            return;
        }
        let action = be_i32(b, 8);
        if action == 0 {
            if len >= 16 && be_i64(b, 0) == MAGIC {
                match r {
                    Ok(Request::Connect(c)) => assert!(c.transaction_id.0.get() == be_i32(b, 12), "[C13.req.connect.fields] transaction id at offset 12"),
                    _ => assert!(false, "[C13.req.connect.accept] conforming connect request must be accepted"),
                }
            } else {
                assert!(is_unsendable(&r), "[C13.req.connect.reject] short connect or wrong protocol id: rejected, unanswerable");
            }
        } else if action == 1 {
            let ev = if len >= 98 { be_i32(b, 80) } else { -1 };
            if len < 98 || !(0..=3).contains(&ev) {
                assert!(is_unsendable(&r), "[C13.req.announce.reject] short announce or unknown event: rejected, unanswerable");
            } else if be_u16(b, 96) == 0 {
                match r {
                    Err(RequestParseError::Sendable { connection_id, transaction_id, .. }) => {
                        assert!(connection_id.0.get() == be_i64(b, 0) && transaction_id.0.get() == be_i32(b, 12),
                            "[C13.req.announce.port0] port 0: rejected with the datagram's connection and transaction id");
                    }
                    _ => assert!(false, "[C13.req.announce.port0] port 0 must be rejected as an answerable error"),
                }
            } else {
                match r {
                    Ok(Request::Announce(a)) => {
                        let ev_ok = match a.event {
                            AnnounceEvent::None => ev == 0,
                            AnnounceEvent::Completed => ev == 1,
                            AnnounceEvent::Started => ev == 2,
                            AnnounceEvent::Stopped => ev == 3,
                        };
                        assert!(ev_ok, "[C13.req.announce.event] event codes 0 none, 1 completed, 2 started, 3 stopped");
                        assert!(a.connection_id.0.get() == be_i64(b, 0), "[C13.req.announce.fields] connection id @0");
                        assert!(a.transaction_id.0.get() == be_i32(b, 12), "[C13.req.announce.fields] transaction id @12");
                        assert!(a.info_hash.0 == bytes20(b, 16), "[C13.req.announce.fields] info hash @16");
                        assert!(a.peer_id.0 == bytes20(b, 36), "[C13.req.announce.fields] peer id @36");
                        assert!(a.bytes_downloaded.0.get() == be_i64(b, 56), "[C13.req.announce.fields] downloaded @56");
                        assert!(a.bytes_left.0.get() == be_i64(b, 64), "[C13.req.announce.fields] left @64");
                        assert!(a.bytes_uploaded.0.get() == be_i64(b, 72), "[C13.req.announce.fields] uploaded @72");
                        assert!(a.ip_address.0 == [b[84], b[85], b[86], b[87]], "[C13.req.announce.fields] ip @84");
                        assert!(a.key.0.get() == be_i32(b, 88), "[C13.req.announce.fields] key @88");
                        assert!(a.peers_wanted.0.get() == be_i32(b, 92), "[C13.req.announce.fields] num_want @92");
                        assert!(a.port.0.get() == be_u16(b, 96), "[C13.req.announce.fields] port @96");
                    }
                    _ => assert!(false, "[C13.req.announce.accept] conforming announce (with or without extension bytes) must be accepted"),
                }
            }
        } else {
            assert!(is_unsendable(&r), "[C13.req.unknown_action] unknown action: rejected, unanswerable");
        }
        kani::cover!(matches!(r, Ok(Request::Announce(_))));
        kani::cover!(matches!(r, Ok(Request::Connect(_))));
    }

    /// scrape longer than 255 hashes (the limit is a u8): a CONCRETE datagram of 300 hashes (hash i = [i as u8; 20] pattern), symbolic limit.
    /// Bounded by construction (one datagram shape); it pins the corner "more hashes than the limit type can count".
    #[kani::proof]
    #[kani::unwind(302)]
    fn parse_scrape_long() {
        const N: usize = 300;
        let mut buf = [0u8; 16 + 20 * N];
        buf[11] = 2; // action = scrape
        buf[7] = 9; // connection id 9
        buf[15] = 7; // transaction id 7
        let mut i = 0;
        while i < N {
            buf[16 + 20 * i] = (i % 251) as u8;
            buf[16 + 20 * i + 1] = (i / 251) as u8;
            i += 1;
        }
        let max: u8 = kani::any();
        let r = Request::parse_bytes(&buf, max);
        match r {
            Ok(Request::Scrape(s)) => {
                assert!(s.info_hashes.len() == max as usize, "[C06.parse.scrape_truncation_long][C13.req.scrape.truncation_long] 300 hashes requested: exactly the first max_scrape_torrents are kept");
                assert!(s.connection_id.0.get() == 9 && s.transaction_id.0.get() == 7, "[C13.req.scrape.fields] ids @0 / @12");
                if max > 0 {
                    let last = (max - 1) as usize;
                    assert!(s.info_hashes[last].0[0] == (last % 251) as u8 && s.info_hashes[last].0[1] == (last / 251) as u8,
                        "[C06.parse.scrape_order_long] hashes in request order");
                }
            }
            _ => assert!(false, "[C13.req.scrape.accept] conforming scrape must be accepted"),
        }
    }

    /// scrape: classification, truncation to max_scrape_torrents, order and content, n <= 6 hashes plus ragged tails
    #[kani::proof]
    #[kani::unwind(22)]
    fn parse_scrape_small() {
        const CAP: usize = 16 + 20 * 4 + 7;
        let buf: [u8; CAP] = kani::any();
        let len: usize = kani::any();
        kani::assume(len >= 12 && len <= CAP);
        let max: u8 = kani::any();
        let b = &buf[..len];
        kani::assume(be_i32(b, 8) == 2);
        let r = Request::parse_bytes(b, max);
        if len < 16 {
            assert!(is_unsendable(&r), "[C13.req.scrape.short] scrape header incomplete: rejected, unanswerable");
            return;
        }
        let payload = len - 16;
        if payload == 0 || payload % 20 != 0 {
            match r {
                Err(RequestParseError::Sendable { connection_id, transaction_id, .. }) => {
                    assert!(connection_id.0.get() == be_i64(b, 0) && transaction_id.0.get() == be_i32(b, 12),
                        "[C13.req.scrape.bad_list] empty or ragged hash list: answerable error with the datagram's ids");
                }
                _ => assert!(false, "[C13.req.scrape.bad_list] empty or ragged hash list must be rejected as an answerable error"),
            }
            return;
        }
        let n = payload / 20;
        match r {
            Ok(Request::Scrape(s)) => {
                let want = if (max as usize) < n { max as usize } else { n };
                assert!(s.info_hashes.len() == want, "[C06.parse.scrape_truncation][C13.req.scrape.truncation] exactly the first min(n, max_scrape_torrents) hashes");
                assert!(s.connection_id.0.get() == be_i64(b, 0) && s.transaction_id.0.get() == be_i32(b, 12), "[C13.req.scrape.fields] ids @0 / @12");
                let mut i = 0;
                while i < want {
                    assert!(s.info_hashes[i].0 == bytes20(b, 16 + 20 * i), "[C06.parse.scrape_order][C13.req.scrape.order] hashes in request order");
                    i += 1;
                }
            }
            _ => assert!(false, "[C13.req.scrape.accept] conforming scrape must be accepted"),
        }
        kani::cover!(n == 4 && max == 3);
    }

    fn any_announce() -> AnnounceRequest {
        let ev = match kani::any::<u8>() % 4 { 0 => AnnounceEvent::None, 1 => AnnounceEvent::Completed, 2 => AnnounceEvent::Started, _ => AnnounceEvent::Stopped };
        AnnounceRequest {
            connection_id: ConnectionId::new(kani::any()),
            action_placeholder: AnnounceActionPlaceholder::Announce,
            transaction_id: TransactionId::new(kani::any()),
            info_hash: InfoHash(kani::any()),
            peer_id: PeerId(kani::any()),
            bytes_downloaded: NumberOfBytes::new(kani::any()),
            bytes_left: NumberOfBytes::new(kani::any()),
            bytes_uploaded: NumberOfBytes::new(kani::any()),
            event: ev,
            ip_address: Ipv4AddrBytes(kani::any()),
            key: PeerKey::new(kani::any()),
            peers_wanted: NumberOfPeers::new(kani::any()),
            port: Port(zerocopy::network_endian::U16::new(kani::any())),
        }
    }

    /// write_bytes of connect and announce = BEP 15 layout; parse(write(x)) == x
    #[kani::proof]
    #[kani::unwind(22)]
    fn write_connect_announce() {
        let c = ConnectRequest { transaction_id: TransactionId::new(kani::any()) };
        let mut out = [0u8; 32];
        let mut cur = Cursor::new(&mut out[..]);
        Request::Connect(c).write_bytes(&mut cur).unwrap();
        let n = cur.position() as usize;
        assert!(n == 16 && be_i64(&out, 0) == MAGIC && be_i32(&out, 8) == 0 && be_i32(&out, 12) == c.transaction_id.0.get(),
            "[C13.req.connect.write] connect = magic, action 0, transaction id: 16 bytes");
        assert!(matches!(Request::parse_bytes(&out[..n], 0), Ok(Request::Connect(x)) if x == c), "[C13.req.connect.roundtrip]");

        let a = any_announce();
        let mut out = [0u8; 128];
        let mut cur = Cursor::new(&mut out[..]);
        Request::Announce(a).write_bytes(&mut cur).unwrap();
        let n = cur.position() as usize;
        let b = &out[..];
        let evc = match a.event { AnnounceEvent::None => 0, AnnounceEvent::Completed => 1, AnnounceEvent::Started => 2, AnnounceEvent::Stopped => 3 };
        assert!(n == 98, "[C13.req.announce.write] announce is 98 bytes");
        assert!(be_i64(b, 0) == a.connection_id.0.get() && be_i32(b, 8) == 1 && be_i32(b, 12) == a.transaction_id.0.get()
            && bytes20(b, 16) == a.info_hash.0 && bytes20(b, 36) == a.peer_id.0
            && be_i64(b, 56) == a.bytes_downloaded.0.get() && be_i64(b, 64) == a.bytes_left.0.get() && be_i64(b, 72) == a.bytes_uploaded.0.get()
            && be_i32(b, 80) == evc && [b[84], b[85], b[86], b[87]] == a.ip_address.0 && be_i32(b, 88) == a.key.0.get()
            && be_i32(b, 92) == a.peers_wanted.0.get() && be_u16(b, 96) == a.port.0.get(),
            "[C13.req.announce.write] every field big-endian at its BEP 15 offset");
        if a.port.0.get() != 0 {
            assert!(matches!(Request::parse_bytes(&out[..n], 0), Ok(Request::Announce(x)) if x == a), "[C13.req.announce.roundtrip]");
        }
    }

    #[kani::proof]
    #[kani::unwind(22)]
    fn write_scrape() {
        let n: usize = kani::any();
        kani::assume(n >= 1 && n <= 2);
        let mut v = Vec::with_capacity(3);
        let mut i = 0;
        while i < n { v.push(InfoHash(kani::any())); i += 1; }
        let s = ScrapeRequest { connection_id: ConnectionId::new(kani::any()), transaction_id: TransactionId::new(kani::any()), info_hashes: v };
        let mut out = [0u8; 16 + 60];
        let mut cur = Cursor::new(&mut out[..]);
        Request::Scrape(s.clone()).write_bytes(&mut cur).unwrap();
        let len = cur.position() as usize;
        assert!(len == 16 + 20 * n && be_i64(&out, 0) == s.connection_id.0.get() && be_i32(&out, 8) == 2 && be_i32(&out, 12) == s.transaction_id.0.get(),
            "[C13.req.scrape.write] scrape header");
        let mut i = 0;
        while i < n { assert!(bytes20(&out, 16 + 20 * i) == s.info_hashes[i].0, "[C13.req.scrape.write] hashes follow in order"); i += 1; }
        assert!(matches!(Request::parse_bytes(&out[..len], 255), Ok(Request::Scrape(x)) if x == s), "[C13.req.scrape.roundtrip]");
    }

    /// quick tier: connect requests only (every datagram of up to 20 bytes whose action field is 0), and the connect writer
    #[kani::proof]
    #[kani::unwind(22)]
    fn parse_write_connect() {
        let buf: [u8; 20] = kani::any();
        let len: usize = kani::any();
        kani::assume(len <= 20);
        let b = &buf[..len];
        if len >= 12 { kani::assume(be_i32(b, 8) == 0); }
        let r = Request::parse_bytes(b, kani::any());
        if len >= 16 && be_i64(b, 0) == MAGIC {
            match r {
                Ok(Request::Connect(c)) => assert!(c.transaction_id.0.get() == be_i32(b, 12), "[C13.req.connect.fields] transaction id at offset 12"),
                _ => assert!(false, "[C13.req.connect.accept] conforming connect request must be accepted"),
            }
        } else {
            assert!(is_unsendable(&r), "[C13.req.connect.reject] short connect or wrong protocol id: rejected, unanswerable");
        }
        let c = ConnectRequest { transaction_id: TransactionId::new(kani::any()) };
        let mut out = [0u8; 32];
        let mut cur = Cursor::new(&mut out[..]);
        Request::Connect(c).write_bytes(&mut cur).unwrap();
        let n = cur.position() as usize;
        assert!(n == 16 && be_i64(&out, 0) == MAGIC && be_i32(&out, 8) == 0 && be_i32(&out, 12) == c.transaction_id.0.get(),
            "[C13.req.connect.write] connect = magic, action 0, transaction id: 16 bytes");
        assert!(matches!(Request::parse_bytes(&out[..n], 0), Ok(Request::Connect(x)) if x == c), "[C13.req.connect.roundtrip]");
    }
}
