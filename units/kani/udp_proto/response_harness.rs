#[cfg(kani)]
mod verif_kani {
    //! C13 / C18: BEP 15 reply layout on the real writers / parser; the oracle composes big-endian integers independently.
    use super::*;
    use std::io::Cursor;

    fn be_u16(b: &[u8], o: usize) -> u16 { ((b[o] as u16) << 8) | b[o + 1] as u16 }
    fn be_i32(b: &[u8], o: usize) -> i32 {
        (((b[o] as u32) << 24) | ((b[o + 1] as u32) << 16) | ((b[o + 2] as u32) << 8) | b[o + 3] as u32) as i32
    }
    fn be_i64(b: &[u8], o: usize) -> i64 { (((be_i32(b, o) as u32 as u64) << 32) | (be_i32(b, o + 4) as u32 as u64)) as i64 }

    fn any_fixed() -> AnnounceResponseFixedData {
        AnnounceResponseFixedData {
            transaction_id: TransactionId::new(kani::any()), announce_interval: AnnounceInterval::new(kani::any()),
            leechers: NumberOfPeers::new(kani::any()), seeders: NumberOfPeers::new(kani::any()),
        }
    }

    /// connect reply: action 0, transaction id, connection id = 16 bytes; round trip
    #[kani::proof]
    #[kani::unwind(22)]
    fn connect_reply() {
        let r = ConnectResponse { transaction_id: TransactionId::new(kani::any()), connection_id: ConnectionId::new(kani::any()) };
        let mut out = [0u8; 32];
        let mut cur = Cursor::new(&mut out[..]);
        Response::Connect(r).write_bytes(&mut cur).unwrap();
        let n = cur.position() as usize;
        assert!(n == 16, "[C13.resp.connect.len][C18.udp.size.connect] a connect reply is exactly 16 bytes");
        assert!(be_i32(&out, 0) == 0 && be_i32(&out, 4) == r.transaction_id.0.get() && be_i64(&out, 8) == r.connection_id.0.get(),
            "[C13.resp.connect.layout] action 0 @0, transaction id @4, connection id @8");
        // a send buffer that is too small makes the writer fail instead of truncating
        let mut small = [0u8; 15];
        let mut cur = Cursor::new(&mut small[..]);
        assert!(Response::Connect(r).write_bytes(&mut cur).is_err(), "[C18.udp.size.write_fails_when_too_small]");
    }

    /// announce reply, IPv4, n <= 2 peers: 20 + 6n bytes, fields and compact peers in order; round trip
    #[kani::proof]
    #[kani::unwind(22)]
    fn announce_reply_v4() {
        let n: usize = kani::any();
        kani::assume(n <= 2);
        let mut peers = Vec::with_capacity(2);
        let mut i = 0;
        while i < n { peers.push(ResponsePeer { ip_address: Ipv4AddrBytes(kani::any()), port: Port(kani::any::<u16>().into()) }); i += 1; }
        let fixed = any_fixed();
        let r = AnnounceResponse { fixed, peers };
        let mut out = [0u8; 40];
        let mut cur = Cursor::new(&mut out[..]);
        r.write_bytes(&mut cur).unwrap();
        let len = cur.position() as usize;
        assert!(len == 20 + 6 * n, "[C13.resp.announce_v4.len][C18.udp.size.announce_v4] 20 + 6n bytes");
        assert!(be_i32(&out, 0) == 1 && be_i32(&out, 4) == fixed.transaction_id.0.get() && be_i32(&out, 8) == fixed.announce_interval.0.get()
            && be_i32(&out, 12) == fixed.leechers.0.get() && be_i32(&out, 16) == fixed.seeders.0.get(),
            "[C13.resp.announce_v4.layout] action 1, transaction id, interval, leechers, seeders");
        let mut i = 0;
        while i < n {
            let p = r.peers[i];
            let ip = p.ip_address.0;
            assert!([out[20 + 6 * i], out[21 + 6 * i], out[22 + 6 * i], out[23 + 6 * i]] == ip && be_u16(&out, 24 + 6 * i) == p.port.0.get(),
                "[C13.resp.announce_v4.peers] 6-byte compact peers in order");
            i += 1;
        }
    }

    /// announce reply, IPv6, n <= 1 peer: 20 + 18n bytes
    #[kani::proof]
    #[kani::unwind(22)]
    fn announce_reply_v6() {
        let n: usize = kani::any();
        kani::assume(n <= 1);
        let mut peers = Vec::with_capacity(1);
        if n == 1 { peers.push(ResponsePeer { ip_address: Ipv6AddrBytes(kani::any()), port: Port(kani::any::<u16>().into()) }); }
        let fixed = any_fixed();
        let r = AnnounceResponse { fixed, peers };
        let mut out = [0u8; 40];
        let mut cur = Cursor::new(&mut out[..]);
        r.write_bytes(&mut cur).unwrap();
        let len = cur.position() as usize;
        assert!(len == 20 + 18 * n, "[C13.resp.announce_v6.len][C18.udp.size.announce_v6] 20 + 18n bytes");
        assert!(be_i32(&out, 0) == 1 && be_i32(&out, 4) == fixed.transaction_id.0.get(), "[C13.resp.announce_v6.layout]");
        if n == 1 {
            let p = r.peers[0];
            let ip = p.ip_address.0;
            let mut j = 0;
            while j < 16 { assert!(out[20 + j] == ip[j], "[C13.resp.announce_v6.peers] 18-byte compact peers"); j += 1; }
            assert!(be_u16(&out, 36) == p.port.0.get(), "[C13.resp.announce_v6.peers] port after the address");
        }
    }

    /// scrape reply, n <= 2 entries: 8 + 12n bytes, (seeders, completed, leechers) per entry
    #[kani::proof]
    #[kani::unwind(22)]
    fn scrape_reply() {
        let n: usize = kani::any();
        kani::assume(n <= 2);
        let mut stats = Vec::with_capacity(2);
        let mut i = 0;
        while i < n {
            stats.push(TorrentScrapeStatistics { seeders: NumberOfPeers::new(kani::any()), completed: NumberOfDownloads::new(kani::any()), leechers: NumberOfPeers::new(kani::any()) });
            i += 1;
        }
        let r = ScrapeResponse { transaction_id: TransactionId::new(kani::any()), torrent_stats: stats };
        let mut out = [0u8; 40];
        let mut cur = Cursor::new(&mut out[..]);
        r.write_bytes(&mut cur).unwrap();
        let len = cur.position() as usize;
        assert!(len == 8 + 12 * n, "[C13.resp.scrape.len][C18.udp.size.scrape] 8 + 12n bytes");
        assert!(be_i32(&out, 0) == 2 && be_i32(&out, 4) == r.transaction_id.0.get(), "[C13.resp.scrape.layout] action 2, transaction id");
        let mut i = 0;
        while i < n {
            let s = r.torrent_stats[i];
            assert!(be_i32(&out, 8 + 12 * i) == s.seeders.0.get() && be_i32(&out, 12 + 12 * i) == s.completed.0.get() && be_i32(&out, 16 + 12 * i) == s.leechers.0.get(),
                "[C13.resp.scrape.entries] seeders, completed, leechers per torrent, in order");
            i += 1;
        }
    }
}
