#[cfg(kani)]
mod verif_kani {
    //! C09 / C02 (ws): offer fan-out on the real `TorrentData::handle_offers` (bounded): recipients, addressing, recorded
    //! expectations and their deadline.  `indexmap` is the executable model; the clock is a stubbed sample.
    use super::*;
    use aquatic_common::{IndexMap, SecondsSinceServerStart, ServerStartInstant};
    use aquatic_ws_protocol::common::{RtcOffer, RtcOfferType};

    static mut CLOCK: Option<u32> = None;
    fn clock_stub(_i: &ServerStartInstant) -> Option<SecondsSinceServerStart> {
        unsafe { CLOCK.map(SecondsSinceServerStart::new_raw) }
    }
    fn deadline(v: ValidUntil) -> u32 { unsafe { std::mem::transmute::<ValidUntil, u32>(v) } }

    fn conn(k: u32) -> ConnectionId {
        // slot-map keys are (index, version) pairs; build distinct ones directly
        ConnectionId::from(slotmap::KeyData::from_ffi((1u64 << 32) | (k as u64 + 1)))
    }
    fn pid(b: u8) -> PeerId { PeerId([b; 20]) }
    fn oid(b: u8) -> OfferId { OfferId([b; 20]) }

    /// sender + up to two other stored peers (owners symbolic in the consumer id), up to two offers
    #[kani::proof]
    #[kani::unwind(22)]
    #[kani::stub(ServerStartInstant::seconds_elapsed, clock_stub)]
    fn offers_two_peers_two_offers() {
        let now: u32 = kani::any();
        kani::assume(now < 1_000_000);
        unsafe { CLOCK = Some(now); }
        let mut config = Config::default();
        let max_offers: usize = kani::any();
        kani::assume(max_offers <= 3);
        config.protocol.max_offers = max_offers;
        let offer_age: u32 = kani::any();
        kani::assume(offer_age < 100_000);
        config.cleaning.max_offer_age = offer_age;
        config.cleaning.max_peer_age = offer_age + 7;   // different from the offer age on purpose

        let start: ServerStartInstant = unsafe { std::mem::zeroed() };   // never read: seconds_elapsed is stubbed
        let mut td = TorrentData::default();
        let n_others: usize = kani::any();
        kani::assume(n_others <= 2);
        let sender_stored: bool = kani::any();
        let mk = |c: u8, k: u32| Peer { consumer_id: ConsumerId(c), connection_id: conn(k), seeder: false,
                                         valid_until: ValidUntil::new_raw(SecondsSinceServerStart::new_raw(0)), expecting_answers: IndexMap::default() };
        let c1: u8 = kani::any(); let c2: u8 = kani::any();
        if n_others >= 1 { td.peers.insert(pid(1), mk(c1, 1)); }
        if sender_stored { td.peers.insert(pid(9), mk(0, 0)); }
        if n_others >= 2 { td.peers.insert(pid(2), mk(c2, 2)); }

        let n_offers: usize = kani::any();
        kani::assume(n_offers <= 2);
        let mut offers = Vec::with_capacity(2);
        let mut i = 0;
        while i < n_offers { offers.push(AnnounceRequestOffer { offer: RtcOffer { t: RtcOfferType::Offer, sdp: String::new() }, offer_id: oid(10 + i as u8) }); i += 1; }

        let mut rng: SmallRng = <SmallRng as rand::SeedableRng>::seed_from_u64(kani::any());
        let mut out: Vec<(OutMessageMeta, OutMessage)> = Vec::with_capacity(4);
        td.handle_offers(&config, &mut rng, start, InfoHash([7; 20]), pid(9), offers, &mut out);

        let want = if !sender_stored { 0 } else { let a = if n_offers < max_offers { n_offers } else { max_offers }; if a < n_others { a } else { n_others } };
        assert!(out.len() == want, "[C09.ws.offers.count] min(offers sent, max_offers, other peers) offers are forwarded (none if the sender is not stored)");
        let mut seen1 = false; let mut seen2 = false;
        let mut j = 0;
        while j < 2 {
            if j < out.len() {
                let (meta, msg) = &out[j];
                match msg {
                    OutMessage::OfferOutMessage(m) => {
                        assert!(m.peer_id == pid(9) && m.info_hash == InfoHash([7; 20]), "[C09.ws.offers.tagged_with_sender] forwarded offers carry the sender's peer id and the torrent");
                        assert!(m.offer_id == oid(10 + j as u8), "[C09.ws.offers.in_order] the j-th forwarded message carries the j-th offer");
                        // addressed to the own connection of ONE stored peer other than the sender, each peer at most once
                        let to1 = n_others >= 1 && meta.connection_id == conn(1) && meta.out_message_consumer_id.0 == c1;
                        let to2 = n_others >= 2 && meta.connection_id == conn(2) && meta.out_message_consumer_id.0 == c2;
                        assert!(to1 || to2, "[C09.ws.offers.addressed_to_receiver][C02.ws.offers.members_not_self] receiver is a stored peer other than the sender, addressed by its own (worker, slot)");
                        if to1 && !to2 { assert!(!seen1, "[C09.ws.offers.distinct_receivers][C02.ws.offers.distinct] distinct offers go to distinct peers"); seen1 = true; }
                        if to2 && !to1 { assert!(!seen2, "[C09.ws.offers.distinct_receivers][C02.ws.offers.distinct] distinct offers go to distinct peers"); seen2 = true; }
                        // the expectation is recorded with the OFFER deadline
                        let rid = if to1 && !to2 { pid(1) } else { pid(2) };
                        if sender_stored && !(to1 && to2) {
                            let exp = td.peers.get(&pid(9)).unwrap().expecting_answers.get(&ExpectingAnswer { from_peer_id: rid, regarding_offer_id: oid(10 + j as u8) });
                            assert!(exp.is_some(), "[C09.ws.offers.expectation_recorded] (receiver, offer id) is recorded for the sender");
                            assert!(deadline(*exp.unwrap()) == now + offer_age, "[C09.ws.offers.expectation_deadline][C10.ws.offer_deadline] the expectation expires at clock sample + max_offer_age");
                        }
                    }
                    _ => assert!(false, "[C09.ws.offers.only_offers] handle_offers emits offer messages only"),
                }
            }
            j += 1;
        }
        kani::cover!(want == 2);
        std::mem::forget(out);
        std::mem::forget(td);
    }

    /// light variant (quick enough to finish): sender stored, at most one other peer, at most one offer, fixed RNG seed
    /// (the selection does not consult the RNG for <= max + 1 peers)
    #[kani::proof]
    #[kani::unwind(22)]
    #[kani::stub(ServerStartInstant::seconds_elapsed, clock_stub)]
    fn offers_one_peer_one_offer() {
        let now: u32 = kani::any();
        kani::assume(now < 1_000_000);
        unsafe { CLOCK = Some(now); }
        let mut config = Config::default();
        config.protocol.max_offers = 2;
        let offer_age: u32 = kani::any();
        kani::assume(offer_age < 100_000);
        config.cleaning.max_offer_age = offer_age;
        config.cleaning.max_peer_age = offer_age + 7;
        let start: ServerStartInstant = unsafe { std::mem::zeroed() };
        let mut td = TorrentData::default();
        let other: bool = kani::any();
        let c1: u8 = kani::any();
        let mk = |c: u8, k: u32| Peer { consumer_id: ConsumerId(c), connection_id: conn(k), seeder: false,
                                         valid_until: ValidUntil::new_raw(SecondsSinceServerStart::new_raw(0)), expecting_answers: IndexMap::default() };
        if other { td.peers.insert(pid(1), mk(c1, 1)); }
        td.peers.insert(pid(9), mk(0, 0));
        let has_offer: bool = kani::any();
        let mut offers = Vec::with_capacity(1);
        if has_offer { offers.push(AnnounceRequestOffer { offer: RtcOffer { t: RtcOfferType::Offer, sdp: String::new() }, offer_id: oid(10) }); }
        let mut rng: SmallRng = <SmallRng as rand::SeedableRng>::seed_from_u64(1);
        let mut out: Vec<(OutMessageMeta, OutMessage)> = Vec::with_capacity(2);
        td.handle_offers(&config, &mut rng, start, InfoHash([7; 20]), pid(9), offers, &mut out);
        let want = if other && has_offer { 1 } else { 0 };
        assert!(out.len() == want, "[C09.ws.offers.count] min(offers sent, max_offers, other peers) offers are forwarded");
        if want == 1 {
            let (meta, msg) = &out[0];
            match msg {
                OutMessage::OfferOutMessage(m) => {
                    assert!(m.peer_id == pid(9) && m.info_hash == InfoHash([7; 20]) && m.offer_id == oid(10), "[C09.ws.offers.tagged_with_sender] the forwarded offer carries the sender's peer id, the torrent and the offer id");
                    assert!(meta.connection_id == conn(1) && meta.out_message_consumer_id.0 == c1, "[C09.ws.offers.addressed_to_receiver][C02.ws.offers.members_not_self] addressed to the other peer's own (worker, slot), never to the sender");
                }
                _ => assert!(false, "[C09.ws.offers.only_offers] handle_offers emits offer messages only"),
            }
            let exp = td.peers.get(&pid(9)).unwrap().expecting_answers.get(&ExpectingAnswer { from_peer_id: pid(1), regarding_offer_id: oid(10) });
            assert!(exp.is_some(), "[C09.ws.offers.expectation_recorded] (receiver, offer id) is recorded for the sender");
            assert!(deadline(*exp.unwrap()) == now + offer_age, "[C09.ws.offers.expectation_deadline][C10.ws.offer_deadline] the expectation expires at clock sample + max_offer_age");
        } else {
            assert!(td.peers.get(&pid(9)).unwrap().expecting_answers.len() == 0, "[C09.ws.offers.expectation_recorded] nothing is recorded when nothing is forwarded");
        }
        kani::cover!(want == 1);
        // skip the drop glue of the message vector and the peer table (irrelevant to the property, expensive for CBMC)
        std::mem::forget(out);
        std::mem::forget(td);
    }

    /// C10 / C09 / C08 (ws cleaning, shape-independent cross-check of the Verus proof): two stored peers with up to two pending offers
    /// each, every deadline and the clock symbolic; after `clean_and_get_num_peers` exactly the peers with deadline > now remain, each with
    /// exactly its pending offers with deadline > now, and the cached seeder counter is exact
    #[kani::proof]
    #[kani::unwind(22)]
    fn clean_two_peers_two_offers() {
        let now: u32 = kani::any();
        let mut td = TorrentData::default();
        let d1: u32 = kani::any(); let d2: u32 = kani::any();
        let s1: bool = kani::any(); let s2: bool = kani::any();
        let e11: u32 = kani::any(); let e12: u32 = kani::any(); let e21: u32 = kani::any();
        let n1: usize = kani::any(); kani::assume(n1 <= 2);
        let n2: usize = kani::any(); kani::assume(n2 <= 1);
        let vu = |d: u32| ValidUntil::new_raw(SecondsSinceServerStart::new_raw(d));
        let mut p1 = Peer { consumer_id: ConsumerId(0), connection_id: conn(1), seeder: s1, valid_until: vu(d1), expecting_answers: IndexMap::default() };
        if n1 >= 1 { p1.expecting_answers.insert(ExpectingAnswer { from_peer_id: pid(2), regarding_offer_id: oid(1) }, vu(e11)); }
        if n1 >= 2 { p1.expecting_answers.insert(ExpectingAnswer { from_peer_id: pid(2), regarding_offer_id: oid(2) }, vu(e12)); }
        let mut p2 = Peer { consumer_id: ConsumerId(1), connection_id: conn(2), seeder: s2, valid_until: vu(d2), expecting_answers: IndexMap::default() };
        if n2 >= 1 { p2.expecting_answers.insert(ExpectingAnswer { from_peer_id: pid(1), regarding_offer_id: oid(3) }, vu(e21)); }
        let two: bool = false;   // a second stored peer exhausts CBMC's memory on this image (nested fixed-capacity maps); kept in the text for larger machines
        td.peers.insert(pid(1), p1);
        if two { td.peers.insert(pid(2), p2); }
        td.num_seeders = (s1 as usize) + ((two && s2) as usize);

        let r = td.clean_and_get_num_peers(SecondsSinceServerStart::new_raw(now));

        let k1 = d1 > now; let k2 = two && d2 > now;
        assert!(td.peers.get(&pid(1)).is_some() == k1 && td.peers.get(&pid(2)).is_some() == k2,
            "[C10.ws.clean.exactly_the_expired_peers_and_offers_removed][C08.ws.clean.state] a peer remains exactly when its deadline is in the future");
        assert!(r == (k1 as usize) + (k2 as usize), "[C10.ws.clean.count] the returned count is the number of peers that remain");
        assert!(td.num_seeders == ((k1 && s1) as usize) + ((k2 && s2) as usize), "[C10.ws.clean.wf][C08.ws.clean.wf] the cached seeder counter equals the stored seeders after cleaning");
        if let Some(p) = td.peers.get(&pid(1)) {
            let a = p.expecting_answers.get(&ExpectingAnswer { from_peer_id: pid(2), regarding_offer_id: oid(1) }).is_some();
            let b = p.expecting_answers.get(&ExpectingAnswer { from_peer_id: pid(2), regarding_offer_id: oid(2) }).is_some();
            assert!(a == (n1 >= 1 && e11 > now) && b == (n1 >= 2 && e12 > now),
                "[C09.ws.clean.expired_expectations_removed][C10.ws.clean.exactly_the_expired_peers_and_offers_removed] a pending offer remains exactly when its deadline is in the future");
            assert!(p.seeder == s1 && p.consumer_id.0 == 0 && p.connection_id == conn(1), "[C08.ws.clean.state] a remaining peer is otherwise unchanged");
        }
        if let Some(p) = td.peers.get(&pid(2)) {
            let a = p.expecting_answers.get(&ExpectingAnswer { from_peer_id: pid(1), regarding_offer_id: oid(3) }).is_some();
            assert!(a == (n2 >= 1 && e21 > now), "[C09.ws.clean.expired_expectations_removed][C10.ws.clean.exactly_the_expired_peers_and_offers_removed] a pending offer remains exactly when its deadline is in the future");
        }
        kani::cover!(true);
    }
}
