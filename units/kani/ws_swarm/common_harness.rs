#[cfg(kani)]
mod verif_kani {
    //! C03 (WebTorrent): which address family a connection's peers are filed under. Loop-free, full domain: a complete proof.
    use super::IpVersion;
    use std::net::{IpAddr, Ipv4Addr, Ipv6Addr};

    #[kani::proof]
    fn canonical_from_ip_spec() {
        let is_v4: bool = kani::any();
        let o4: [u8; 4] = kani::any();
        let o6: [u8; 16] = kani::any();
        let ip = if is_v4 { IpAddr::V4(Ipv4Addr::from(o4)) } else { IpAddr::V6(Ipv6Addr::from(o6)) };
        let r = IpVersion::canonical_from_ip(ip);
        // reference: an IPv4 source, or an IPv4-mapped IPv6 source ::ffff:a.b.c.d, is an IPv4 peer; everything else IPv6
        let mapped = !is_v4
            && o6[0] == 0 && o6[1] == 0 && o6[2] == 0 && o6[3] == 0 && o6[4] == 0 && o6[5] == 0 && o6[6] == 0 && o6[7] == 0
            && o6[8] == 0 && o6[9] == 0 && o6[10] == 0xff && o6[11] == 0xff;
        let is_ipv4_peer = matches!(r, IpVersion::V4);
        assert!(is_ipv4_peer == (is_v4 || mapped)); // [C03.ws.family_of_source]
        // same decision as the shared canonicalisation used by the UDP and HTTP trackers (std's to_ipv4_mapped)
        if let IpAddr::V6(a) = ip {
            assert!(is_ipv4_peer == a.to_ipv4_mapped().is_some()); // [C03.ws.family_agrees_with_canonical_addr]
        }
        kani::cover!(mapped);
        kani::cover!(!is_v4 && !mapped);
    }
}
