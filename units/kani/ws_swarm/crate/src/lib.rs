//! The three files below are the real sources of aquatic_ws (same bytes as /repo's working tree, plus the cfg(kani)
//! harness module that the injector appends to storage.rs). The module layout mirrors aquatic_ws so that `crate::common`
//! and `crate::config` resolve.
#![allow(dead_code, unused_imports)]
#[path = "../../ws/src/config.rs"]
pub mod config;
#[path = "../../ws/src/common.rs"]
pub mod common;
#[path = "../../ws/src/workers/swarm/storage.rs"]
pub mod storage;
