#[cfg(kani)]
mod verif_kani {
    //! C15 / C12: 20-byte identifiers <-> strings of exactly 20 chars in U+0000..U+00FF, on the real visitor / serializer.
    use super::*;
    use serde::ser::Impossible;

    fn fmt_stub(_args: std::fmt::Arguments<'_>) -> String { String::new() }

    /// error type whose `custom` ignores the message (the message text is not part of the property)
    #[derive(Debug)]
    struct E;
    impl std::fmt::Display for E { fn fmt(&self, _f: &mut std::fmt::Formatter<'_>) -> std::fmt::Result { Ok(()) } }
    impl std::error::Error for E {}
    impl serde::de::Error for E { fn custom<T: std::fmt::Display>(_msg: T) -> Self { E } }
    impl serde::ser::Error for E { fn custom<T: std::fmt::Display>(_msg: T) -> Self { E } }

    const MAXC: usize = 21;

    /// decode of every string of up to 21 chars drawn from U+0000..U+00FF and a window of larger code points
    #[kani::proof]
    #[kani::unwind(24)]
    #[kani::stub(std::fmt::format, fmt_stub)]
    fn visit_str_exact() {
        let n: usize = kani::any();
        kani::assume(n <= MAXC);
        let mut cs = ['\0'; MAXC];
        let mut buf = [0u8; 4 * MAXC];
        let mut len = 0;
        let mut i = 0;
        while i < n {
            // every character of U+0000..U+00FF (1 or 2 bytes of UTF-8) plus a 256-character window above it (2 or 3 bytes)
            let lo: u8 = kani::any();
            let c: char = if kani::any() { char::from(lo) } else { char::from_u32(0x100 + ((lo as u32) << 3)).unwrap() };
            cs[i] = c;
            len += c.encode_utf8(&mut buf[len..]).len();
            i += 1;
        }
        let s = unsafe { std::str::from_utf8_unchecked(&buf[..len]) };
        let r: Result<[u8; 20], E> = TwentyByteVisitor.visit_str(s);
        let mut in_range = true;
        let mut i = 0;
        while i < 20 && i < n { if cs[i] as u32 > 255 { in_range = false; } i += 1; }
        match r {
            Ok(arr) => {
                assert!(n >= 20, "[C15.ident.too_short] fewer than 20 characters must be rejected");
                assert!(n <= 20, "[C15.ident.too_long] more than 20 characters must be rejected");
                assert!(in_range, "[C15.ident.out_of_range] characters above U+00FF must be rejected");
                let mut i = 0;
                while i < 20 { assert!(arr[i] == cs[i] as u32 as u8, "[C15.ident.value] byte i is the code point of character i"); i += 1; }
            }
            Err(_) => {
                assert!(!(n == 20 && in_range), "[C15.ident.accept] exactly 20 characters in U+0000..U+00FF must be accepted");
            }
        }
        kani::cover!(r.is_ok());
        kani::cover!(n == 21);
    }

    /// serializer that captures the string handed to serialize_str
    struct Cap<'a> { out: &'a mut [u8; 40], len: &'a mut usize }
    impl<'a> serde::Serializer for Cap<'a> {
        type Ok = ();
        type Error = E;
        type SerializeSeq = Impossible<(), E>;
        type SerializeTuple = Impossible<(), E>;
        type SerializeTupleStruct = Impossible<(), E>;
        type SerializeTupleVariant = Impossible<(), E>;
        type SerializeMap = Impossible<(), E>;
        type SerializeStruct = Impossible<(), E>;
        type SerializeStructVariant = Impossible<(), E>;
        fn serialize_str(self, v: &str) -> Result<(), E> {
            let b = v.as_bytes();
            assert!(b.len() <= 40);
            let mut i = 0;
            while i < b.len() { self.out[i] = b[i]; i += 1; }
            *self.len = b.len();
            Ok(())
        }
        fn serialize_bool(self, _: bool) -> Result<(), E> { Err(E) }
        fn serialize_i8(self, _: i8) -> Result<(), E> { Err(E) }
        fn serialize_i16(self, _: i16) -> Result<(), E> { Err(E) }
        fn serialize_i32(self, _: i32) -> Result<(), E> { Err(E) }
        fn serialize_i64(self, _: i64) -> Result<(), E> { Err(E) }
        fn serialize_u8(self, _: u8) -> Result<(), E> { Err(E) }
        fn serialize_u16(self, _: u16) -> Result<(), E> { Err(E) }
        fn serialize_u32(self, _: u32) -> Result<(), E> { Err(E) }
        fn serialize_u64(self, _: u64) -> Result<(), E> { Err(E) }
        fn serialize_f32(self, _: f32) -> Result<(), E> { Err(E) }
        fn serialize_f64(self, _: f64) -> Result<(), E> { Err(E) }
        fn serialize_char(self, _: char) -> Result<(), E> { Err(E) }
        fn serialize_bytes(self, _: &[u8]) -> Result<(), E> { Err(E) }
        fn serialize_none(self) -> Result<(), E> { Err(E) }
        fn serialize_some<T: ?Sized + serde::Serialize>(self, _: &T) -> Result<(), E> { Err(E) }
        fn serialize_unit(self) -> Result<(), E> { Err(E) }
        fn serialize_unit_struct(self, _: &'static str) -> Result<(), E> { Err(E) }
        fn serialize_unit_variant(self, _: &'static str, _: u32, _: &'static str) -> Result<(), E> { Err(E) }
        fn serialize_newtype_struct<T: ?Sized + serde::Serialize>(self, _: &'static str, _: &T) -> Result<(), E> { Err(E) }
        fn serialize_newtype_variant<T: ?Sized + serde::Serialize>(self, _: &'static str, _: u32, _: &'static str, _: &T) -> Result<(), E> { Err(E) }
        fn serialize_seq(self, _: Option<usize>) -> Result<Self::SerializeSeq, E> { Err(E) }
        fn serialize_tuple(self, _: usize) -> Result<Self::SerializeTuple, E> { Err(E) }
        fn serialize_tuple_struct(self, _: &'static str, _: usize) -> Result<Self::SerializeTupleStruct, E> { Err(E) }
        fn serialize_tuple_variant(self, _: &'static str, _: u32, _: &'static str, _: usize) -> Result<Self::SerializeTupleVariant, E> { Err(E) }
        fn serialize_map(self, _: Option<usize>) -> Result<Self::SerializeMap, E> { Err(E) }
        fn serialize_struct(self, _: &'static str, _: usize) -> Result<Self::SerializeStruct, E> { Err(E) }
        fn serialize_struct_variant(self, _: &'static str, _: u32, _: &'static str, _: usize) -> Result<Self::SerializeStructVariant, E> { Err(E) }
    }

    /// encode of every 20-byte identifier: 20 characters, character i = byte i; and it decodes back
    #[kani::proof]
    #[kani::unwind(42)]
    #[kani::stub(std::fmt::format, fmt_stub)]
    fn serialize_exact_and_roundtrip() {
        let data: [u8; 20] = kani::any();
        let mut out = [0u8; 40];
        let mut len = 0usize;
        let r = serialize_20_bytes(&data, Cap { out: &mut out, len: &mut len });
        assert!(r.is_ok(), "[C15.ident.encode.ok]");
        // independent layout oracle: byte b < 0x80 is itself, otherwise the two-byte UTF-8 form of U+00<b>
        let mut o = 0;
        let mut i = 0;
        while i < 20 {
            let b = data[i];
            if b < 0x80 {
                assert!(o < len && out[o] == b, "[C15.ident.encode.chars] character i is U+00<byte i>");
                o += 1;
            } else {
                assert!(o + 1 < len && out[o] == 0xC0 | (b >> 6) && out[o + 1] == 0x80 | (b & 0x3F), "[C15.ident.encode.chars] character i is U+00<byte i>");
                o += 2;
            }
            i += 1;
        }
        assert!(o == len, "[C15.ident.encode.len] exactly 20 characters");
        let s = unsafe { std::str::from_utf8_unchecked(&out[..len]) };
        let back: Result<[u8; 20], E> = TwentyByteVisitor.visit_str(s);
        assert!(matches!(back, Ok(b) if b == data), "[C15.ident.roundtrip] decode(encode(x)) == x");
    }

    /// quick tier: the length rule on ASCII strings of up to 21 characters
    #[kani::proof]
    #[kani::unwind(24)]
    #[kani::stub(std::fmt::format, fmt_stub)]
    fn visit_str_ascii_len() {
        let n: usize = kani::any();
        kani::assume(n <= 21);
        let mut buf = [0u8; 21];
        let mut i = 0;
        while i < n { let c: u8 = kani::any(); kani::assume(c < 128); buf[i] = c; i += 1; }
        let s = unsafe { std::str::from_utf8_unchecked(&buf[..n]) };
        let r: Result<[u8; 20], E> = TwentyByteVisitor.visit_str(s);
        match r {
            Ok(arr) => {
                assert!(n >= 20, "[C15.ident.too_short] fewer than 20 characters must be rejected");
                assert!(n <= 20, "[C15.ident.too_long] more than 20 characters must be rejected");
                let mut i = 0;
                while i < 20 { assert!(arr[i] == buf[i], "[C15.ident.value] byte i is the code point of character i"); i += 1; }
            }
            Err(_) => assert!(n != 20, "[C15.ident.accept] exactly 20 characters in U+0000..U+00FF must be accepted"),
        }
        kani::cover!(r.is_ok());
    }

    /// quick tier: strings of up to 12 characters of U+0000..U+00FF (1 or 2 bytes each, so up to 24 bytes) are all too short
    #[kani::proof]
    #[kani::unwind(14)]
    #[kani::stub(std::fmt::format, fmt_stub)]
    fn visit_str_short_rejected() {
        let n: usize = kani::any();
        kani::assume(n <= 12);
        let mut buf = [0u8; 24];
        let mut len = 0;
        let mut i = 0;
        while i < n { let c = char::from(kani::any::<u8>()); len += c.encode_utf8(&mut buf[len..]).len(); i += 1; }
        let s = unsafe { std::str::from_utf8_unchecked(&buf[..len]) };
        let r: Result<[u8; 20], E> = TwentyByteVisitor.visit_str(s);
        assert!(r.is_err(), "[C15.ident.too_short] fewer than 20 characters must be rejected (whatever their UTF-8 length)");
        kani::cover!(len == 20);
    }
}
