#[cfg(kani)]
mod verif_kani {
    //! HTTP swarm storage: hand-off contracts of the inline map (complete: every ArrayVec state, capacity 4), heap-map
    //! cleaning / shrinking and the per-worker scrape and clean (bounded).  `indexmap` is the executable model here.
    use super::*;
    use std::net::{Ipv4Addr, Ipv6Addr};
    use aquatic_common::{IndexMap, SecondsSinceServerStart, ValidUntil};
    use arrayvec::ArrayVec;

    pub trait AnyIp: Ip { fn any_ip() -> Self; }
    impl AnyIp for Ipv4Addr { fn any_ip() -> Self { Ipv4Addr::from(kani::any::<[u8; 4]>()) } }
    impl AnyIp for Ipv6Addr { fn any_ip() -> Self { Ipv6Addr::from(kani::any::<[u8; 16]>()) } }

    fn any_key<I: AnyIp>() -> ResponsePeer<I> { ResponsePeer { ip_address: I::any_ip(), port: kani::any() } }
    fn any_peer() -> Peer {
        Peer { is_seeder: kani::any(), valid_until: ValidUntil::new_raw(SecondsSinceServerStart::new_raw(kani::any())) }
    }
    fn deadline(p: &Peer) -> u32 { unsafe { std::mem::transmute::<ValidUntil, u32>(p.valid_until) } }
    fn peer_eq(a: &Peer, b: &Peer) -> bool { a.is_seeder == b.is_seeder && deadline(a) == deadline(b) }

    type E<I> = (ResponsePeer<I>, Peer);
    const C: usize = SMALL_PEER_MAP_CAPACITY;

    fn any_small<I: AnyIp>() -> (SmallPeerMap<I>, [Option<E<I>>; C], usize) {
        let mut m = SmallPeerMap(ArrayVec::new());
        let mut a: [Option<E<I>>; C] = [None; C];
        let n: usize = kani::any();
        kani::assume(n <= C);
        let mut i = 0;
        while i < n {
            let k = any_key::<I>();
            let mut j = 0;
            while j < i { kani::assume(a[j].unwrap().0 != k); j += 1; }
            let p = any_peer();
            a[i] = Some((k, p));
            m.0.push((k, p));
            i += 1;
        }
        (m, a, n)
    }
    fn count_seeders<I: Ip, const N: usize>(a: &[Option<E<I>>; N], n: usize) -> usize {
        let mut c = 0; let mut i = 0;
        while i < n { if a[i].unwrap().1.is_seeder { c += 1; } i += 1; }
        c
    }

    #[kani::proof] #[kani::unwind(22)]
    fn small_queries_v4() {
        let (m, old, n) = any_small::<Ipv4Addr>();
        assert!(m.is_full() == (n == C), "[C07.http.small.is_full]");
        let (s, l) = m.num_seeders_leechers();
        assert!(s == count_seeders(&old, n) && s + l == n, "[C07.http.small.nsl] seeders = stored seeders, seeders + leechers = stored peers");
        let max: usize = kani::any();
        let v = m.extract_response_peers(max);
        let want = if max < n { max } else { n };
        assert!(v.len() == want, "[C02.http.small.extract.len] first min(max, len) keys");
        let mut i = 0;
        while i < want { assert!(v[i] == old[i].unwrap().0, "[C02.http.small.extract.keys] first min(max, len) keys, in order"); i += 1; }
        let l = m.to_large();
        assert!(l.peers.model_len() == n && l.num_seeders == count_seeders(&old, n), "[C07.http.small.to_large] same entries, cached counter = stored seeders");
        let mut i = 0;
        while i < n { let (k, v) = l.peers.model_entry(i); assert!(*k == old[i].unwrap().0 && peer_eq(v, &old[i].unwrap().1), "[C07.http.small.to_large] same entries, same order"); i += 1; }
    }

    #[kani::proof] #[kani::unwind(22)]
    fn small_insert_remove_v4() {
        let (mut m, old, n) = any_small::<Ipv4Addr>();
        let key = any_key::<Ipv4Addr>();
        let mut pos = None; let mut i = 0;
        while i < n { if old[i].unwrap().0 == key { pos = Some(i); } i += 1; }
        let r = m.remove(&key);
        match pos {
            None => {
                assert!(r.is_none() && m.0.len() == n, "[C07.http.small.remove.absent] absent key: None, map unchanged");
                let mut i = 0;
                while i < n { assert!(m.0[i].0 == old[i].unwrap().0 && peer_eq(&m.0[i].1, &old[i].unwrap().1), "[C07.http.small.remove.absent] absent key: map unchanged"); i += 1; }
                if n < C {
                    let p = any_peer();
                    m.insert(key, p);
                    assert!(m.0.len() == n + 1 && m.0[n].0 == key && peer_eq(&m.0[n].1, &p), "[C07.http.small.insert] appended at the end");
                }
            }
            Some(p) => {
                assert!(r.is_some() && peer_eq(&r.unwrap(), &old[p].unwrap().1), "[C07.http.small.remove.present] returns the stored record");
                assert!(m.0.len() == n - 1, "[C07.http.small.remove.present] exactly one entry removed");
                let mut i = 0; let mut w = 0;
                while i < n {
                    if i != p { assert!(m.0[w].0 == old[i].unwrap().0 && peer_eq(&m.0[w].1, &old[i].unwrap().1), "[C07.http.small.remove.present] the other entries are untouched, in order"); w += 1; }
                    i += 1;
                }
            }
        }
    }

    #[kani::proof] #[kani::unwind(22)]
    fn small_clean_v4() {
        let (mut m, old, n) = any_small::<Ipv4Addr>();
        let now: u32 = kani::any();
        let r = m.clean_and_get_num_peers(SecondsSinceServerStart::new_raw(now));
        let mut total = 0;
        let mut j = 0;
        while j < C {
            let mut c = 0; let mut i = 0;
            while i < n {
                let e = old[i].unwrap();
                if deadline(&e.1) > now {
                    if c == j {
                        assert!(j < m.0.len() && m.0[j].0 == e.0 && peer_eq(&m.0[j].1, &e.1), "[C10.http.small.clean.keeps_unexpired] a peer whose deadline is in the future is kept, unchanged, in order");
                    }
                    c += 1;
                }
                i += 1;
            }
            total = c;
            j += 1;
        }
        assert!(m.0.len() == total && r == total, "[C10.http.small.clean.removes_expired] a peer at or past its deadline is removed; the returned count is what remains");
    }

    fn any_large<I: AnyIp, const N: usize>() -> (LargePeerMap<I>, [Option<E<I>>; N], usize) {
        let mut m = LargePeerMap { peers: IndexMap::default(), num_seeders: 0 };
        let mut a: [Option<E<I>>; N] = [None; N];
        let n: usize = kani::any();
        kani::assume(n <= N);
        let mut i = 0;
        while i < n {
            let k = any_key::<I>();
            let mut j = 0;
            while j < i { kani::assume(a[j].unwrap().0 != k); j += 1; }
            let p = any_peer();
            a[i] = Some((k, p));
            m.peers.insert(k, p);
            if p.is_seeder { m.num_seeders += 1; }
            i += 1;
        }
        (m, a, n)
    }

    #[kani::proof] #[kani::unwind(22)]
    fn large_clean_shrink_v4_5() {
        let (mut m, old, n) = any_large::<Ipv4Addr, 5>();
        let now: u32 = kani::any();
        let r = m.clean_and_get_num_peers(SecondsSinceServerStart::new_raw(now));
        let mut total = 0; let mut es = 0;
        let mut j = 0;
        while j < 5 {
            let mut c = 0; let mut i = 0; es = 0;
            while i < n {
                let e = old[i].unwrap();
                if deadline(&e.1) > now {
                    if c == j {
                        assert!(j < m.peers.model_len(), "[C10.http.large.clean.keeps_unexpired] a peer whose deadline is in the future is kept");
                        let (k, v) = m.peers.model_entry(j);
                        let kk = *k;
                        assert!(kk == e.0 && peer_eq(v, &e.1), "[C10.http.large.clean.keeps_unexpired] kept peers are unchanged and in order");
                    }
                    if e.1.is_seeder { es += 1; }
                    c += 1;
                }
                i += 1;
            }
            total = c;
            j += 1;
        }
        let w = total;
        assert!(m.peers.model_len() == w && r == w, "[C10.http.large.clean.removes_expired] a peer at or past its deadline is removed");
        assert!(m.num_seeders == es, "[C07.http.large.clean.wf] cached seeder counter = stored seeders after cleaning");
        let s = m.try_shrink();
        assert!(s.is_some() == (w <= C), "[C07.http.large.try_shrink.iff_fits] shrinks exactly when the peers fit inline");
        if let Some(s) = s {
            assert!(s.0.len() == w, "[C07.http.large.try_shrink.same_entries]");
            let mut i = 0;
            while i < w { let (k, v) = m.peers.model_entry(i); let kk = *k; assert!(s.0[i].0 == kk && peer_eq(&s.0[i].1, v), "[C07.http.large.try_shrink.same_entries] same entries, same order"); i += 1; }
        }
    }

    // ---------------- per-worker map: scrape ----------------
    fn hash_of(b: u8) -> InfoHash { let mut h = [0u8; 20]; h[0] = b; h[19] = b; InfoHash(h) }

    /// state: torrents 1..=T each with a symbolic (<= 2 peers) inline map; request: <= 4 hashes drawn from 0..=T+1 (repeats and unknowns allowed)
    #[kani::proof] #[kani::unwind(22)]
    fn scrape_first_max_each_once() {
        let mut tm: TorrentMap<Ipv4Addr> = TorrentMap { torrents: IndexMap::default() };
        let mut seed = [0usize; 4];
        let mut leech = [0usize; 4];
        let mut t = 1;
        while t <= 2 {
            let mut m = SmallPeerMap(ArrayVec::new());
            let np: usize = kani::any();
            kani::assume(np <= 2);
            let mut i = 0;
            while i < np {
                let p = any_peer();
                m.0.push((ResponsePeer { ip_address: Ipv4Addr::new(10, 0, t as u8, i as u8), port: 1 }, p));
                if p.is_seeder { seed[t] += 1; } else { leech[t] += 1; }
                i += 1;
            }
            tm.torrents.insert(hash_of(t as u8), TorrentData::Small(m));
            t += 1;
        }
        let mut config = Config::default();
        let max: usize = kani::any();
        kani::assume(max <= 4);
        config.protocol.max_scrape_torrents = max;
        let n: usize = kani::any();
        kani::assume(n <= 4);
        let mut req = [0u8; 4];
        let mut v = Vec::with_capacity(4);
        let mut i = 0;
        while i < n { let b: u8 = kani::any(); kani::assume(b <= 3); req[i] = b; v.push(hash_of(b)); i += 1; }
        let resp = tm.handle_scrape_request(&config, ScrapeRequest { info_hashes: v });
        let take = if n < max { n } else { max };
        // every hash 0..=3: present in the reply iff it is among the first `take` requested hashes, with the stored counts (zeros if unknown)
        let mut b = 0u8;
        while b <= 3 {
            let mut wanted = false; let mut i = 0;
            while i < take { if req[i] == b { wanted = true; } i += 1; }
            match resp.files.get(&hash_of(b)) {
                Some(st) => {
                    assert!(wanted, "[C07.http.scrape.only_first_max] only the first max_scrape_torrents requested torrents are reported");
                    assert!(st.complete == seed[b as usize] && st.incomplete == leech[b as usize] && st.downloaded == 0,
                        "[C07.http.scrape.counts] stored counts, zeros for an unknown torrent");
                }
                None => assert!(!wanted, "[C07.http.scrape.each_requested_once] each of the first max_scrape_torrents requested torrents is reported"),
            }
            b += 1;
        }
        kani::cover!(n == 4 && max == 3 && req[0] == req[1]);
    }

    /// smaller variant: no stored torrents (every count is zero), <= 3 requested hashes out of {0,1,2}, limit <= 3.
    /// Decides WHICH hashes are reported: exactly those among the first min(n, max_scrape_torrents) requested, each once.
    #[kani::proof] #[kani::unwind(22)]
    fn scrape_prefix_only_empty_map() {
        let mut tm: TorrentMap<Ipv4Addr> = TorrentMap { torrents: IndexMap::default() };
        let mut config = Config::default();
        let max: usize = kani::any();
        kani::assume(max <= 3);
        config.protocol.max_scrape_torrents = max;
        let n: usize = kani::any();
        kani::assume(n <= 3);
        let mut req = [0u8; 3];
        let mut v = Vec::with_capacity(3);
        let mut i = 0;
        while i < n { let b: u8 = kani::any(); kani::assume(b <= 2); req[i] = b; v.push(hash_of(b)); i += 1; }
        let resp = tm.handle_scrape_request(&config, ScrapeRequest { info_hashes: v });
        let take = if n < max { n } else { max };
        let mut b = 0u8;
        while b <= 2 {
            let mut wanted = false; let mut i = 0;
            while i < take { if req[i] == b { wanted = true; } i += 1; }
            let got = resp.files.contains_key(&hash_of(b));
            assert!(!got || wanted, "[C07.http.scrape.only_first_max] only the first max_scrape_torrents requested torrents are reported");
            assert!(got || !wanted, "[C07.http.scrape.each_requested_once] each of the first max_scrape_torrents requested torrents is reported");
            b += 1;
        }
        kani::cover!(n == 3 && max == 2 && req[0] == req[1]);
    }
}
