//! The two files below are the real sources of aquatic_http (same bytes as /repo's working tree, plus the
//! cfg(kani) harness module that the injector appends to storage.rs).
#![allow(dead_code, unused_imports)]
#[path = "../../http/src/config.rs"]
pub mod config;
#[path = "../../http/src/workers/swarm/storage.rs"]
pub mod storage;
