#[cfg(kani)]
mod verif_kani {
    //! C05: connection ids are bound to source IP and time window.
    //! The keyed hash is an uninterpreted function H(elapsed, ip): a memoised nondeterministic table
    //! (at most 3 distinct arguments are ever queried per harness).
    use super::*;
    use std::net::{Ipv4Addr, Ipv6Addr, SocketAddr, SocketAddrV4, SocketAddrV6};
    use std::net::IpAddr;

    type Key = ([u8; 4], bool, [u8; 16]);
    static mut MEMO_LEN: usize = 0;
    static mut MEMO_K: [Key; 4] = [([0; 4], false, [0; 16]); 4];
    static mut MEMO_V: [[u8; 4]; 4] = [[0; 4]; 4];

    fn key_of(elapsed: [u8; 4], ip: IpAddr) -> Key {
        match ip {
            IpAddr::V4(a) => {
                let mut b = [0u8; 16];
                b[..4].copy_from_slice(&a.octets());
                (elapsed, true, b)
            }
            IpAddr::V6(a) => (elapsed, false, a.octets()),
        }
    }

    /// H as a pure function: same arguments => same value, different arguments => unconstrained value
    fn h(elapsed: [u8; 4], ip: IpAddr) -> [u8; 4] {
        let k = key_of(elapsed, ip);
        unsafe {
            let mut i = 0;
            while i < MEMO_LEN {
                if MEMO_K[i] == k {
                    return MEMO_V[i];
                }
                i += 1;
            }
            assert!(MEMO_LEN < 4, "harness error: memo table too small");
            let v: [u8; 4] = kani::any();
            MEMO_K[MEMO_LEN] = k;
            MEMO_V[MEMO_LEN] = v;
            MEMO_LEN += 1;
            v
        }
    }

    fn hash_model(_v: &mut ConnectionValidator, elapsed: [u8; 4], ip_addr: IpAddr) -> [u8; 4] {
        h(elapsed, ip_addr)
    }
    fn cte_model(a: &[u8], b: &[u8]) -> bool {
        a == b
    }

    fn any_sockaddr() -> SocketAddr {
        if kani::any() {
            SocketAddr::V4(SocketAddrV4::new(Ipv4Addr::from(kani::any::<[u8; 4]>()), kani::any()))
        } else {
            SocketAddr::V6(SocketAddrV6::new(Ipv6Addr::from(kani::any::<[u8; 16]>()), kani::any(), kani::any(), kani::any()))
        }
    }

    /// every field symbolic; the hasher and the start instant are never read because `hash` is stubbed and
    /// `update_elapsed` is not called.  `max_connection_age` is a u32 widened to u64 (that is what `new` stores).
    fn any_validator() -> ConnectionValidator {
        let age: u32 = kani::any();
        ConnectionValidator {
            start_time: unsafe { std::mem::zeroed() },
            max_connection_age: age as u64,
            keyed_hasher: unsafe { std::mem::zeroed() },
            seconds_since_start: kani::any(),
        }
    }

    #[kani::proof]
    #[kani::unwind(20)]
    #[kani::stub(ConnectionValidator::hash, hash_model)]
    #[kani::stub(::constant_time_eq::constant_time_eq, cte_model)]
    fn create_layout() {
        let mut v = any_validator();
        let src = CanonicalSocketAddr::new(any_sockaddr());
        let now = v.seconds_since_start;
        let id = v.create_connection_id(src);
        let b = id.0.get().to_ne_bytes();
        assert!(b[0..4] == now.to_ne_bytes(), "[C05.create.layout.time] bytes 0..4 of a new id are the issue time");
        assert!(b[4..8] == h(now.to_ne_bytes(), src.get().ip()), "[C05.create.layout.mac] bytes 4..8 are H(issue time, source ip)");
        kani::cover!(true);
    }

    #[kani::proof]
    #[kani::unwind(20)]
    #[kani::stub(ConnectionValidator::hash, hash_model)]
    #[kani::stub(::constant_time_eq::constant_time_eq, cte_model)]
    fn valid_spec() {
        let mut v = any_validator();
        let src = CanonicalSocketAddr::new(any_sockaddr());
        let raw: i64 = kani::any();
        let id = ConnectionId::new(raw);
        let r = v.connection_id_valid(src, id);
        let b = raw.to_ne_bytes();
        let e4: [u8; 4] = [b[0], b[1], b[2], b[3]];
        let mac_ok = b[4..8] == h(e4, src.get().ip());
        let e = u32::from_ne_bytes(e4) as u128;
        let now = v.seconds_since_start as u128;
        let age = v.max_connection_age as u128;
        assert!(!r || mac_ok, "[C05.valid.mac] accepted only with the right MAC for (issue time, source ip)");
        assert!(!r || e + age > now, "[C05.valid.expiry] accepted only while fewer than max_connection_age seconds have passed");
        assert!(!r || e <= now + 60, "[C05.valid.future] ids issued more than 60 s in the future are rejected");
        assert!(r || !(mac_ok && e + age > now && e <= now + 60), "[C05.valid.accepts] every id meeting the three conditions is accepted");
        kani::cover!(r);
        kani::cover!(!r);
    }

    #[kani::proof]
    #[kani::unwind(20)]
    #[kani::stub(ConnectionValidator::hash, hash_model)]
    #[kani::stub(::constant_time_eq::constant_time_eq, cte_model)]
    fn issue_then_check() {
        let mut v = any_validator();
        let src = CanonicalSocketAddr::new(any_sockaddr());
        let t0 = v.seconds_since_start;
        let id = v.create_connection_id(src);
        let t1: u32 = kani::any();
        kani::assume(t1 >= t0);
        v.seconds_since_start = t1;
        let r = v.connection_id_valid(src, id);
        assert!(r == (((t1 - t0) as u64) < v.max_connection_age),
            "[C05.window.same_ip] accepted from the issuing address exactly while t1 - t0 < max_connection_age");
        // another address (possibly the other family): acceptance needs a 32-bit MAC collision
        let other = CanonicalSocketAddr::new(any_sockaddr());
        kani::assume(other.get().ip() != src.get().ip());
        let r2 = v.connection_id_valid(other, id);
        assert!(!r2 || h(t0.to_ne_bytes(), other.get().ip()) == h(t0.to_ne_bytes(), src.get().ip()),
            "[C05.window.other_ip] another address is accepted only on a MAC collision");
        kani::cover!(r);
        kani::cover!(!r);
        kani::cover!(r2);
    }

    #[kani::proof]
    #[kani::unwind(20)]
    #[kani::stub(ConnectionValidator::hash, hash_model)]
    #[kani::stub(::constant_time_eq::constant_time_eq, cte_model)]
    fn altered_id() {
        // flipping any bit of an issued id: accepted only if the altered MAC happens to be right for the altered time
        let mut v = any_validator();
        let src = CanonicalSocketAddr::new(any_sockaddr());
        let id = v.create_connection_id(src);
        let mask: i64 = kani::any();
        kani::assume(mask != 0);
        let raw2 = id.0.get() ^ mask;
        v.seconds_since_start = kani::any();
        let r = v.connection_id_valid(src, ConnectionId::new(raw2));
        let b = raw2.to_ne_bytes();
        let e4: [u8; 4] = [b[0], b[1], b[2], b[3]];
        assert!(!r || b[4..8] == h(e4, src.get().ip()), "[C05.altered] an altered id is accepted only with a MAC valid for its own time field");
        kani::cover!(r);
    }
}
