#!/bin/bash
# usage: seed_verify.sh <worktree> <demo test command...>
# confirms: (1) suite passes with patch, (2) demo fails with patch, (3) demo passes without patch
set -u
WT=$1; shift
cd $WT || exit 9
export CARGO_NET_OFFLINE=true
git checkout -q -- . ; git clean -fdq -e SEED -e target
git apply SEED/patch.diff || { echo "patch does not apply"; exit 9; }
echo "== (1) existing suite with patch"
cargo test --workspace --no-fail-fast --offline 2>&1 | grep -E "^test result|FAILED|failed" | awk '{print}' | sort | uniq -c | sort -rn | head -8
git apply SEED/demo.diff || { echo "demo does not apply on patch"; exit 9; }
echo "== (2) demo with patch (expect FAIL)"
"$@" 2>&1 | grep -E "^test result|panicked|FAILED|error(\[|:)" | head -8
git checkout -q -- . ; git clean -fdq -e SEED -e target
git apply SEED/demo.diff || { echo "demo does not apply on clean"; exit 9; }
echo "== (3) demo without patch (expect PASS)"
"$@" 2>&1 | grep -E "^test result|panicked|FAILED|error(\[|:)" | head -8
git checkout -q -- . ; git clean -fdq -e SEED -e target
