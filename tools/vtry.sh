#!/bin/bash
# dev helper: build unit $1 from /repo (or $2) and run verus, printing rendered errors
rm -f /tmp/vprobe/$1.rs; cd /verif && python3 - "$1" "${2:-/repo}" <<'PY'
import sys; sys.path.insert(0,'lib')
from extract import build_unit
u=sys.argv[1]
text, table, rec, fns = build_unit(f'units/verus/{u}.rs.tmpl',sys.argv[2])
import os; os.makedirs('/tmp/vprobe',exist_ok=True)
open(f"/tmp/vprobe/{u}.rs","w").write(text)
PY
cd /tmp/vprobe && verus $1.rs 2>&1 | grep -v "^warning: use of deprecated" 
