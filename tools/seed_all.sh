#!/bin/bash
# run the quick check of the named property against every kept seed (sequentially; /repo is restored after each)
while read N P T; do
  [ -z "$N" ] && continue
  /verif/tools/seed_check.sh $N $P ${T:-quick} 2>&1 | grep -E "VIOLATION|UNDECIDED|=> exit|KNOWN" | cut -c1-220
done <<LIST
C01-large-clean-counter C01 quick
C02-inclusive-range C02 quick
C03-to-ipv4 C03 quick
C05-future-window C05 quick
C08-and-instead-of-or C08 quick
C10-ws-seeder-refresh C10 quick
C12-http-shrink-then-push C12 quick
C12-http-shrink-then-push C07 quick
C14-urldecode-fastpath C14 quick
C15-bytelen-fastpath C15 quick
C18-buffer-4096 C18 quick
C13-truncate-before-validate C13 thorough
C06-scrape-u8-wrap C06 thorough
C07-scrape-dedup C07 quick
C09-offer-deadline C09 quick
C11-reload-lines C11 quick
C20-skip-inactive-family C20 quick
LIST
