#!/usr/bin/env python3
"""Regenerate /verif/MANIFEST.json from props.py (single source of truth)."""
import json, os, sys
HERE = os.path.dirname(os.path.dirname(os.path.abspath(__file__)))
sys.path.insert(0, HERE); sys.path.insert(0, os.path.join(HERE, 'lib'))
import props as P

BASE = "cd /repo && (cargo nextest run --workspace --no-fail-fast --test-threads 8 --offline || cargo test --workspace --no-fail-fast --offline)"
checks = []
for pid in sorted(P.PROPS):
    s = P.PROPS[pid]
    checks.append(dict(
        property_id=pid,
        quick_cmd=f"python3 check.py {pid} --tier quick",
        thorough_cmd=f"python3 check.py {pid} --tier thorough",
        evidence_file=f"/verif/evidence/{pid}.json",
        replay_cmd_template="python3 check.py --replay {path}",
        engine="check.py",
        level_claimed=dict(category=s.get('level', 'proof'), text=s['claim'], design_ref=s.get('design_ref', 'DESIGN.md section 5 ' + pid)),
        level_note=s['note'],
        technique=s['technique'],
    ))
NA = dict(P.NOT_APPLICABLE)
for l in open(os.path.join(HERE, 'properties.jsonl')):
    pid = json.loads(l)['id']
    if pid not in P.PROPS and pid not in NA:
        NA[pid] = 'not claimed: no check built for this property yet'
m = dict(
    version=1,
    setup_cmd="python3 check.py --setup",
    hooks=dict(guard="kani", enable="none: contracts and harnesses are spliced into a scratch copy of /repo's working tree on every run (cfg(kani) modules for Kani, extracted functions for Verus); /repo itself carries no hooks",
               baseline_off_cmd=BASE, source_commits=[], add_only=True),
    engines=[dict(name="check.py", path="/verif/check.py", serves_properties=sorted(P.PROPS),
                  kind_free_text="contract-based deductive verification: Verus on mechanically extracted real functions + Kani/CBMC harnesses and function contracts on the real crates")],
    checks=checks,
    notes="Exit 2 from a check means undecided (lost anchor, unsupported construct, solver limit), never a violation. See DESIGN.md.",
    not_applicable=[dict(property_id=k, reason=v) for k, v in sorted(NA.items())],
)
json.dump(m, open(os.path.join(HERE, 'MANIFEST.json'), 'w'), indent=1)
print('MANIFEST.json:', len(checks), 'checks,', len(m['not_applicable']), 'not applicable')
