#!/bin/bash
# usage: seed_check.sh <seeded-name> <PID> [tier]   -- apply patch to /repo, run check, ALWAYS undo
N=$1; P=$2; T=${3:-quick}
cd /repo && git diff --quiet || { echo "/repo not clean"; exit 9; }
git -C /repo apply /verif/seeded/$N/patch.diff || exit 9
cp /verif/evidence/$P.json /tmp/ev_$P.bak 2>/dev/null
cd /verif && python3 check.py $P --tier $T; rc=$?
git -C /repo checkout -- .
# do not keep the evidence of a mutated run
cp /tmp/ev_$P.bak /verif/evidence/$P.json 2>/dev/null
echo "seed $N property $P tier $T => exit $rc"
