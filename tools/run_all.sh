#!/bin/bash
# run every claimed check (tier $1, default quick) on the unchanged /repo, then validate evidence files
T=${1:-quick}
cd /verif
git -C /repo diff --quiet || { echo "/repo has uncommitted changes"; exit 9; }
for p in $(python3 -c "import sys; sys.path.insert(0,'/verif'); sys.path.insert(0,'/verif/lib'); import props; print(' '.join(sorted(props.PROPS)))"); do
  /usr/bin/time -f "%e s" python3 check.py $p --tier $T 2>&1 | tail -12 | cut -c1-300
  echo "   -> $p exit ${PIPESTATUS[0]}"
done
python3-vt - <<'PY'
import json, jsonschema, glob
sch = json.load(open('/root/.vp/EVIDENCE.schema.json'))
for f in sorted(glob.glob('/verif/evidence/*.json')):
    e = json.load(open(f))
    try:
        jsonschema.validate(e, sch)
        c = e['coverage']
        ok = (e['level'] != 'proof') or c['obligations'] == c['discharged']
        print(f, 'valid', e['level'], c.get('obligations'), c.get('discharged'), 'OK' if ok else 'PROOF-MISMATCH')
    except Exception as ex:
        print(f, 'INVALID', str(ex)[:200])
PY
