#!/usr/bin/env python3
"""Print the prompt handed to a seeding sub-agent for property <ID> (contains only the property record)."""
import json, sys
pid = sys.argv[1]
rec = None
for l in open('/verif/properties.jsonl'):
    p = json.loads(l)
    if p['id'] == pid:
        rec = p
wt = f"/tmp/seed-{pid}"
print(f"""You are helping test a verification effort for the open-source Rust BitTorrent tracker greatest-ape/aquatic.
You have your own scratch git worktree of the repository at {wt} (detached HEAD at the pinned commit). Work ONLY inside {wt}; never read or touch /repo or /verif. There is no network: always use `cargo ... --offline` (CARGO_NET_OFFLINE=true). The existing test suite is run with: `cd {wt} && cargo test --workspace --no-fail-fast --offline` (62 tests, all pass on the unchanged tree; building takes a few minutes the first time).

Here is a semantic property of the code base that should hold (JSON record):

{json.dumps(rec, indent=1)}

Your task: produce ONE realistic source change to the repository (a plausible bug a maintainer might introduce while refactoring/optimising — not sabotage comments, not a change to tests) that BREAKS this property while (a) the workspace still compiles, and (b) the existing test suite still passes completely. Prefer a change that needs something specific to manifest — a multi-step sequence of operations, an unusual input or field value, a particular configuration, a boundary value, or two cooperating sites that each look fine alone — rather than something ordinary use would expose at once. Keep the change small (a few lines) and confined to the non-test source files the property is anchored in.

Also write a demonstration: a Rust test (e.g. a new `#[cfg(test)]` unit test placed in a NEW file or appended test module, or an integration test under the crate's tests/ directory) or small program that FAILS with your change and PASSES without it. Private functions can be reached from a `#[cfg(test)] mod` appended to the same source file — that is fine for the demonstration, but keep the demonstration separable from the breaking change.

Deliverables, all inside {wt}/SEED/ (create the directory):
  - patch.diff      : `git diff` of ONLY the breaking change (no demonstration code), applicable with `git apply` at the repo root
  - demo.diff       : `git diff` adding ONLY the demonstration test (applicable on the unchanged tree as well as on top of patch.diff)
  - NOTES.md        : which clause of the property breaks, what is needed for it to manifest, the exact commands you ran and their results: (1) existing suite passes with patch.diff applied, (2) demonstration fails with patch.diff applied, (3) demonstration passes without it.
Verify all three facts yourself by actually running the commands. When done, leave the worktree with both diffs APPLIED NOWHERE (i.e. `git checkout -- . && git clean -fd -e SEED -e target` so only SEED/ and target/ remain), and reply with a short summary (the changed function, the idea, and the three verification results).""")
