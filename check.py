#!/usr/bin/env python3
"""Driver: decide one property of greatest-ape/aquatic by contract-based deductive verification.

  python3 check.py <ID> [--tier quick|thorough] [--repo /repo]
  python3 check.py --replay <file>
  python3 check.py --setup

Exit 0: every obligation of the property was discharged (known findings are printed).
Exit 1: a violation not listed in known_findings.json ("VIOLATION property=<id> replay=<path>").
Exit 2: undecided (lost anchor, construct outside the supported subset, time-out / out of memory, tool error).
"""
import argparse
import json
import os
import re
import shutil
import sys
import time
import traceback

HERE = os.path.dirname(os.path.abspath(__file__))
sys.path.insert(0, os.path.join(HERE, 'lib'))

from rustlex import ExtractError          # noqa: E402
import verus_unit                          # noqa: E402
from verus_unit import Undecided           # noqa: E402
import kani_unit                           # noqa: E402
import props as P                          # noqa: E402

SCRATCH_ROOT = os.environ.get('VERIF_SCRATCH', '/var/tmp/aquatic-verif')


def load_known():
    p = os.path.join(HERE, 'known_findings.json')
    if not os.path.exists(p):
        return []
    return json.load(open(p)).get('findings', [])


def write_replay(pid, obligation, body):
    d = os.path.join(HERE, 'replays', pid)
    os.makedirs(d, exist_ok=True)
    safe = re.sub(r'[^\w.\-]', '_', obligation)
    path = os.path.join(d, safe + '.txt')
    open(path, 'w').write(body)
    return path


def scan_trusted(text):
    """mechanical scan of a generated unit / harness for unchecked assumptions"""
    pats = ['assume(', 'admit(', 'external_body', 'assume_specification', 'kani::assume', 'kani::stub', 'axiom fn', 'external_type_specification']
    return {k: text.count(k) for k in pats if text.count(k)}


def run_property(pid, tier, repo, seed):
    t0 = time.time()
    spec = P.PROPS[pid]
    workdir = os.path.join(SCRATCH_ROOT, pid)
    os.makedirs(workdir, exist_ok=True)
    failures = []          # dict(tag, backend, unit, detail, replayable(bool), playback(optional))
    samples = []
    functions = []
    extraction = []
    trusted = {}
    obligations = 0
    discharged = 0
    bounded = []
    undecided = []
    solver_s = 0.0
    cmds = []
    notes = []

    # ---------------- Verus units ----------------
    verus_undecided = []
    for unit in spec.get('verus', []):
        tmpl = os.path.join(HERE, 'units', 'verus', unit + '.rs.tmpl')
        try:
            r = verus_unit.verify_unit(tmpl, repo, os.path.join(workdir, 'verus'), unit)
        except (Undecided, ExtractError) as e:
            # this unit cannot decide (lost anchor, construct outside the supported subset, solver budget): go on with the other units and
            # the Kani harnesses - a counterexample replayed on the real code is a violation whatever the proof side can or cannot do -
            # and report UNDECIDED at the end if nothing else fails
            verus_undecided.append(f'{unit}: {e}')
            notes.append(f'verus unit {unit}: undecided: ' + str(e).split('\n')[0][:300])
            continue
        cmds.append(r['cmd'])
        solver_s += (r.get('smt_ms') or 0) / 1000.0
        tags = verus_unit.count_tags(r['text'], pid)
        failed_tags = set()
        untagged = []
        for f in r['failures']:
            mine = [t for t in f['tags'] if t.startswith(pid + '.')]
            if not f['tags']:
                untagged.append(f"{unit}: Verus reported `{f['msg']}` at an untagged location ({f.get('fn')}, {f.get('where')}):\n{f['rendered']}")
                continue
            for t in mine:
                failed_tags.add(t)
                failures.append(dict(tag=t, backend='verus', unit=unit, fn=f.get('fn'), where=f.get('where'),
                                     detail=f['msg'], output=f['rendered']))
        if untagged and not failed_tags:
            # an obligation failed somewhere that carries no clause tag (prelude, vstd precondition, lemma): cannot be attributed
            raise Undecided(untagged[0])
        for u in untagged:
            notes.append('additional untagged verifier error (not attributed): ' + u.split('\n')[0])
        # safety obligations: one per extracted function whose home tag (or C12 twin) belongs to this property
        fn_obls = []
        for fn in r['fns']:
            home = fn['tag']
            if not home:
                continue
            if home.startswith(pid + '.'):
                fn_obls.append(home + '.safety')
            elif pid == 'C12':
                fn_obls.append('C12.' + home.split('.', 1)[-1] + '.safety')
        all_tags = sorted(set(tags) | set(fn_obls))
        obligations += len(all_tags)
        discharged += len([t for t in all_tags if t not in failed_tags])
        for t in all_tags[:400]:
            samples.append(dict(obligation=t, backend='verus', unit=unit, status='failed' if t in failed_tags else 'discharged'))
        for rec in r['records']:
            extraction.append(dict(unit=unit, **{k: rec[k] for k in ('kind', 'name', 'file', 'lines', 'sha256')},
                                   rules=[list(x) for x in rec['rules']]))
            if rec['kind'] == 'fn':
                functions.append(f"{rec['file']} :: {rec['name']} (verus:{unit})")
        for k, v in scan_trusted(r['text']).items():
            trusted[f'verus:{unit}:{k}'] = v
        notes.append(f"verus unit {unit}: {r['verified']} functions verified, {r['errors']} errors, vacuity guard {r.get('vacuity')}")

    # ---------------- Kani units ----------------
    kspecs = [k for k in spec.get('kani', []) if tier == 'thorough' or k.get('tier', 'quick') == 'quick']
    if kspecs:
        kr = kani_unit.run_units(pid, kspecs, repo, workdir, tier)
        cmds += kr['cmds']
        solver_s += kr['solver_s']
        for h in kr['harnesses']:
            tags = [t for t in h['tags'] if t.startswith(pid + '.')]
            if h['status'] == 'undecided':
                tool_limit = any(k in h.get('reason', '') for k in ('timed out', 'tool limit', 'tool-limit', 'no verdict', 'out of memory'))
                if h.get('optional') and tool_limit:
                    # harness known to sit at the edge of what CBMC finishes here: a time-out is recorded, not counted, and
                    # does not make the check fail (anything else - lost anchor, non-reproducing counterexample - still does)
                    for t in tags:
                        undecided.append(dict(obligation=t, harness=h['name'], reason='tool limit (time-out / memory) on this run'))
                    notes.append(f"kani harness {h['name']}: tool limit, recorded as undecided: {h['reason'][:160]}")
                    continue
                # undecided harness (lost anchor, non-reproducing counterexample, tool hiccup): remember it, go on; a violation established by
                # another unit / harness is still reported, otherwise the check ends UNDECIDED
                verus_undecided.append(f"kani harness {h['name']}: {h['reason']}")
                notes.append(f"kani harness {h['name']}: undecided: " + str(h['reason'])[:200])
                continue
            ftags = set(t for t in h.get('failed_tags', []) if t.startswith(pid + '.'))
            if h['status'] == 'failed' and not ftags and h.get('failed_tags'):
                # failure belongs to another property's tag only
                pass
            elif h['status'] == 'failed' and not h.get('failed_tags'):
                ftags = set(tags)   # untagged failure inside the harness: attribute to all tags of the harness
            for t in ftags:
                failures.append(dict(tag=t, backend='kani', unit=h['unit'], fn=h['name'], where=h.get('where'),
                                     detail='; '.join(h.get('failed_descriptions', [])[:5]), output=h.get('output_tail', ''),
                                     playback=h.get('playback')))
            if h['complete']:
                obligations += len(tags)
                discharged += len([t for t in tags if t not in ftags])
            else:
                for t in tags:
                    bounded.append(dict(obligation=t, bound=h['bound'], status='failed' if t in ftags else 'no violation within bound'))
            for t in tags:
                samples.append(dict(obligation=t, backend='kani:' + ('complete' if h['complete'] else 'bounded(' + str(h['bound']) + ')'),
                                    harness=h['name'], checks=h.get('checks'), time_s=h.get('time_s'),
                                    status='failed' if t in ftags else 'discharged'))
            functions += [f"{x} (kani:{h['unit']})" for x in h.get('functions', [])]
        for k, v in kr['trusted'].items():
            trusted[k] = v
        dt = os.path.join(HERE, '.cache', 'difftest.txt')
        if any('replace' in k for k in kspecs) and os.path.exists(dt):
            notes.append('indexmap_model vs real indexmap (setup): ' + open(dt).read().strip())
        notes += kr['notes']

    # ---------------- verdict ----------------
    known = [k for k in load_known() if k['property'] == pid and k.get('status', 'open') == 'open']
    new_violations = []
    known_hits = []
    for f in failures:
        hit = None
        for k in known:
            if k['obligation'] == f['tag']:
                hit = k
        if hit:
            known_hits.append((hit, f))
        else:
            new_violations.append(f)
    for k, f in known_hits:
        print(f"KNOWN-FINDING: property={pid} {k['obligation']} {k['what']}")
    seen = set()
    exit_code = 0
    for f in new_violations:
        if f['tag'] in seen:
            continue
        seen.add(f['tag'])
        body = [f"property: {pid}", f"tier: {tier}", f"failed obligation: {f['tag']}", f"back end: {f['backend']} (unit {f['unit']})",
                f"function: {f.get('fn')}", f"source location: {f.get('where')}", f"verifier message: {f['detail']}", '',
                'replay: python3 /verif/check.py --replay <this file>', '', '---- verifier output ----', f.get('output') or '']
        pb = f.get('playback')
        if pb:
            body += ['', '---- concrete playback on the natively compiled real code ----', pb.get('text', '')]
        path = write_replay(pid, f['tag'], '\n'.join(body))
        suffix = '' if (pb and pb.get('reproduced')) else ' no-failing-input-found'
        print(f"VIOLATION property={pid} replay={path}{suffix}")
        exit_code = 1

    if exit_code == 0 and verus_undecided:
        raise Undecided(verus_undecided[0])
    wall = time.time() - t0
    level = spec.get('level', 'proof')
    cov = dict(
        obligations=obligations, discharged=discharged,
        checker_cmd=' ; '.join(dict.fromkeys(cmds))[:4000],
        trusted_base=P.TRUSTED_BASE + [f'{k} x{v}' for k, v in sorted(trusted.items())],
        samples=samples[:600],
        bounded_obligations=bounded,
        undecided_obligations=undecided,
        functions_under_contract=sorted(set(functions)),
        extraction=extraction,
        solver_time_s=round(solver_s, 2),
        notes=notes,
        explanation=spec.get('explanation', ''),
        known_findings_reported=[k['obligation'] for k, _ in known_hits],
        not_reached=spec.get('not_reached', []),
    )
    if level != 'proof':
        cov['evaluations'] = max(1, obligations + len(bounded))
        cov['distinct_nontrivial'] = max(2, len(set(s['obligation'] for s in samples)))
        cov['rule'] = 'one case per named obligation (contract clause or harness assertion); distinct by tag'
    ev = dict(property_id=pid, tier=tier, seed=seed, level=level, coverage=cov,
              assumptions=spec.get('assumptions', []) + P.STANDING_ASSUMPTIONS,
              wall_s=round(wall, 2), violations=len(seen))
    # evidence is only ever written for runs against /repo itself (never for scratch copies used in self-tests)
    evdir = os.environ.get('VERIF_EVIDENCE_DIR') or (os.path.join(HERE, 'evidence') if os.path.realpath(repo) == '/repo' and not os.environ.get('VERIF_ONLY') else os.path.join(SCRATCH_ROOT, 'evidence-scratch'))
    os.makedirs(evdir, exist_ok=True)
    json.dump(ev, open(os.path.join(evdir, pid + '.json'), 'w'), indent=1)
    print(f"{pid}: {discharged}/{obligations} complete obligations discharged, {len(bounded)} bounded, {len(undecided)} undecided (tool limit), "
          f"{len(known_hits)} known findings, {len(seen)} new violations, {wall:.1f}s")
    return exit_code


def replay(path):
    txt = open(path).read()
    m = re.search(r'^property: (\w+)', txt, re.M)
    o = re.search(r'^failed obligation: (\S+)', txt, re.M)
    if not m or not o:
        print('not a replay file')
        return 2
    pid, tag = m.group(1), o.group(1)
    print(f'replaying obligation {tag} of {pid}: re-running the check on the current tree')
    rc = main_check(pid, 'thorough' if 'tier: thorough' in txt else 'quick', os.environ.get('VERIF_REPO', '/repo'))
    print(f'replay of {tag}: ' + ('the obligation (or another one of the property) still fails' if rc == 1 else 'no violation on the current tree' if rc == 0 else 'undecided'))
    return rc


def main_check(pid, tier, repo):
    seed = int(os.environ.get('VERIF_SEED', '0') or 0)
    try:
        return run_property(pid, tier, repo, seed)
    except (Undecided, ExtractError) as e:
        print(f'UNDECIDED property={pid}: {e}')
        return 2
    except Exception:
        traceback.print_exc()
        print(f'UNDECIDED property={pid}: internal error')
        return 2
    finally:
        kani_unit.cleanup(os.path.join(SCRATCH_ROOT, pid))


def main():
    ap = argparse.ArgumentParser()
    ap.add_argument('pid', nargs='?')
    ap.add_argument('--tier', default=os.environ.get('VERIF_TIER', 'quick'))
    ap.add_argument('--repo', default=os.environ.get('VERIF_REPO', '/repo'))
    ap.add_argument('--replay')
    ap.add_argument('--setup', action='store_true')
    a = ap.parse_args()
    if a.setup:
        sys.exit(kani_unit.setup(a.repo))
    if a.replay:
        sys.exit(replay(a.replay))
    if a.pid not in P.PROPS:
        print(f'unknown or unclaimed property {a.pid}')
        sys.exit(2)
    sys.exit(main_check(a.pid, a.tier if a.tier in ('quick', 'thorough') else 'quick', a.repo))


if __name__ == '__main__':
    main()
