"""Build, run and classify one Verus unit."""
import json
import os
import re
import subprocess
import time

from extract import build_unit
from rustlex import ExtractError

TAG_RE = re.compile(r'\[(C\d\d[\w.]*)\]')

OBLIGATION_MSGS = (
    'postcondition not satisfied', 'precondition not satisfied', 'possible arithmetic underflow/overflow',
    'possible division by zero', 'assertion failed', 'invariant not satisfied', 'index out of bounds',
    'possible bit shift underflow/overflow', 'decreases not satisfied', 'unwrap', 'recommendation not met',
    'loop invariant', 'call to unwrap', 'possible overflow', 'possible underflow',
)


class Undecided(Exception):
    pass


def run_verus(path, rlimit=None, timeout=600):
    cmd = ['verus', path, '--output-json', '--time', '--error-format=json', '--multiple-errors', '50']
    if rlimit:
        cmd += ['--rlimit', str(rlimit)]
    t0 = time.time()
    try:
        p = subprocess.run(cmd, capture_output=True, text=True, timeout=timeout, cwd=os.path.dirname(path))
    except subprocess.TimeoutExpired:
        raise Undecided(f'verus timed out after {timeout}s on {path}')
    wall = time.time() - t0
    try:
        res = json.loads(p.stdout)
    except Exception:
        res = None
    diags = []
    for ln in p.stderr.splitlines():
        ln = ln.strip()
        if ln.startswith('{'):
            try:
                diags.append(json.loads(ln))
            except Exception:
                pass
    return res, diags, wall, ' '.join(cmd), p.stderr


def tags_near(lines, table, lineno):
    """lineno is 1-based in the unit file. Look on that line, then forward within the same contract/template block."""
    idx = lineno - 1
    for k in range(idx, min(idx + 12, len(lines))):
        t = TAG_RE.findall(lines[k])
        if t:
            return t
        # stop when the clause obviously ended
        if k > idx and re.match(r'\s*(requires|ensures|decreases|invariant)\b', lines[k]):
            break
        if lines[k].rstrip().endswith('{') and k > idx:
            break
    return []


def classify(diags, text, table):
    """Returns (failures, frontend_errors).  failure = dict(msg, tags, fn, where, rendered)."""
    lines = text.split('\n')
    fails, front = [], []
    for d in diags:
        if d.get('level') != 'error':
            continue
        msg = d.get('message', '')
        if msg.startswith('aborting due to') or msg.startswith('could not compile'):
            continue
        is_obl = any(k in msg for k in OBLIGATION_MSGS)
        spans = d.get('spans', [])
        if 'esource limit' in msg:
            continue        # solver budget exhausted: handled by the caller (retry with a larger budget, else undecided)
        if not is_obl:
            front.append(dict(msg=msg, rendered=d.get('rendered', '')))
            continue
        tags, fn, where = [], None, None
        # prefer the span labelled as the failed clause; else primary
        ordered = sorted(spans, key=lambda s: (0 if (s.get('label') or '').startswith('failed') else 1, 0 if s.get('is_primary') else 1))
        for s in ordered:
            ln = s['line_start']
            ent = table[ln - 1] if ln - 1 < len(table) else {}
            lab = s.get('label') or ''
            if lab.startswith('failed') or ent.get('kind') in ('contract', 'tmpl'):
                t = tags_near(lines, table, ln)
                if t and not tags:
                    tags = t
            if ent.get('kind') == 'src' and fn is None:
                fn = ent.get('fn')
                where = f"{ent.get('file')}:{ent.get('line')}"
                fntag = ent.get('tag')
            elif ent.get('kind') == 'contract' and fn is None:
                fn = ent.get('fn')
                fntag = ent.get('tag')
        if not tags and fn is not None and ('arithmetic' in msg or 'division' in msg or 'unwrap' in msg or 'index' in msg or 'shift' in msg):
            base = fntag or 'C12.unknown'
            tags = [base + '.safety', 'C12.' + base.split('.', 1)[-1] + '.safety']
        fails.append(dict(msg=msg, tags=tags, fn=fn, where=where, rendered=d.get('rendered', '')))
    return fails, front


def function_results(res):
    out = {}
    if not res:
        return out
    smt = res.get('times-ms', {}).get('smt', {})
    for mod in smt.get('smt-run-module-times', []):
        for f in mod.get('function-breakdown', []):
            out[f['function']] = dict(ok=f.get('success'), micros=f.get('time-micros'), rlimit=f.get('rlimit'))
    return out


def verify_unit(template, repo_root, workdir, unit_name):
    """Full cycle: extract, verify, vacuity run.  Returns a dict; raises Undecided / ExtractError."""
    os.makedirs(workdir, exist_ok=True)
    text, table, records, fns = build_unit(template, repo_root)
    path = os.path.join(workdir, unit_name + '.rs')
    open(path, 'w').write(text)
    res, diags, wall, cmd, stderr = run_verus(path)
    fails, front = classify(diags, text, table)
    # rule A4: an extracted function may come to use a plain constant of ITS OWN source file that the unit did not extract (a refactoring
    # that names a literal).  Such a constant is pulled in mechanically (same text, visibility raised) and the unit is re-run once.
    missing = sorted(set(re.findall(r'cannot find value `([A-Z][A-Z0-9_]*)` in this scope', ' '.join(f['msg'] for f in front))))
    if missing:
        from extract import Extractor
        from rustlex import ExtractError as _EE
        ex = Extractor(repo_root)
        files = sorted(set(r['file'] for r in records if r.get('kind') == 'fn'))
        extra, found = [], []
        for nm in missing:
            for rel in files:
                try:
                    segs, S = ex.item(rel, 'const', nm, {'vis': 'pub'})
                except (_EE, Exception):
                    continue
                extra.append(''.join(sg.text for sg in segs))
                found.append((nm, rel))
                break
        if len(found) == len(missing):
            hdr = '\n'.join(extra)
            text2 = text.replace('verus! {\n', 'verus! {\n// rule A4: constants of the extracted functions\' own source files, pulled in on demand\n' + hdr + '\n', 1)
            shift = text2.count('\n') - text.count('\n')
            first = text.split('\n').index('verus! {') + 1
            table = table[:first] + [dict(kind='tmpl', line=0)] * shift + table[first:]
            text = text2
            records = records + ex.records
            for r in ex.records:
                r['rules'] = list(r.get('rules', [])) + [('A4', 'same-file constant pulled in on demand', '')]
            open(path, 'w').write(text)
            res, diags, wall2, cmd, stderr = run_verus(path)
            wall += wall2
            fails, front = classify(diags, text, table)
    if res is None:
        raise Undecided(f'verus produced no JSON for {unit_name}: {stderr[-2000:]}')
    vr = res['verification-results']
    if front or vr.get('encountered-vir-error'):
        msgs = '; '.join(f['msg'] for f in front[:5]) or 'VIR error'
        raise Undecided(f'{unit_name}: Verus front-end rejected the extracted code (unsupported construct or lost anchor): {msgs}\n' + '\n'.join(f['rendered'] for f in front[:5]))
    # rlimit / timeouts are reported as errors with "Resource limit" message
    for d in diags:
        if d.get('level') == 'error' and 'esource limit' in d.get('message', ''):
            res2, diags2, wall2, cmd2, stderr2 = run_verus(path, rlimit=40)
            if res2 is None:
                raise Undecided(f'verus produced no JSON for {unit_name} (retry with 4x rlimit): {stderr2[-1500:]}')
            fails, front = classify(diags2, text, table)
            if front:
                raise Undecided(f'{unit_name}: Verus front-end error on retry: ' + '; '.join(f['msg'] for f in front[:3]))
            if any('esource limit' in x.get('message', '') for x in diags2 if x.get('level') == 'error'):
                raise Undecided(f'{unit_name}: resource limit exceeded even with 4x rlimit')
            res, diags, wall = res2, diags2, wall + wall2
            vr = res['verification-results']
            break
    fres = function_results(res)
    result = dict(unit=unit_name, path=path, verified=vr.get('verified'), errors=vr.get('errors'), wall_s=wall,
                  cmd=cmd, failures=fails, records=records, fns=fns, function_results=fres,
                  smt_ms=res.get('times-ms', {}).get('smt', {}).get('total'), text=text, table=table)
    # ---- vacuity guard: ensures false must fail in every extracted fn ----
    if not fails:
        vtext, vtable, _, _ = build_unit(template, repo_root, vacuity=True)
        vpath = os.path.join(workdir, unit_name + '_vacuity.rs')
        open(vpath, 'w').write(vtext)
        vres, vdiags, vwall, _, vstderr = run_verus(vpath)
        if vres is None:
            raise Undecided(f'{unit_name}: vacuity run produced no JSON: {vstderr[-1500:]}')
        vf, vfront = classify(vdiags, vtext, vtable)
        if vfront:
            raise Undecided(f'{unit_name}: vacuity run front-end error: ' + '; '.join(x['msg'] for x in vfront[:3]))
        failed_fns = set()
        for d in vdiags:
            if d.get('level') == 'error' and ('postcondition not satisfied' in d.get('message', '') or 'esource limit' in d.get('message', '')):
                for s in d.get('spans', []):
                    ent = vtable[s['line_start'] - 1] if s['line_start'] - 1 < len(vtable) else {}
                    if ent.get('fn'):
                        failed_fns.add(ent['fn'])
        missing = [f['label'] for f in fns if not f['novac'] and (f['label'] + '__vac') not in failed_fns]
        result['vacuity'] = dict(checked=len([f for f in fns if not f['novac']]), refuted=len(failed_fns & {f['label'] + '__vac' for f in fns}), wall_s=vwall)
        result['wall_s'] += vwall
        if missing:
            raise Undecided(f'{unit_name}: vacuity guard: `ensures false` verified for {missing} (contradictory precondition or prelude)')
    return result


def count_tags(text, prop):
    """number of distinct clause tags of property `prop` present in the unit text"""
    tags = set(t for t in TAG_RE.findall(text) if t.startswith(prop + '.'))
    return sorted(tags)
