"""Kani route: snapshot /repo's working tree, inject #[cfg(kani)] harness modules (additive), run cargo kani,
classify per-harness results, replay counterexamples natively with concrete playback."""
import json
import os
import re
import shutil
import subprocess
import time

HERE = os.path.dirname(os.path.dirname(os.path.abspath(__file__)))
CACHE = os.path.join(HERE, '.cache')
TARGET = os.path.join(CACHE, 'kani-target')
TAG_RE = re.compile(r'\[(C\d\d[\w.]*)\]')
ENV = dict(os.environ, CARGO_NET_OFFLINE='true', CARGO_TERM_COLOR='never')


MEM_LIMIT = int(os.environ.get('VERIF_MEM_GB', '20')) * (1 << 30)


def _limit():
    import resource
    resource.setrlimit(resource.RLIMIT_AS, (MEM_LIMIT, MEM_LIMIT))


def sh(cmd, cwd=None, timeout=None, env=None):
    t0 = time.time()
    try:
        p = subprocess.run(cmd, cwd=cwd, env=env or ENV, capture_output=True, text=True, timeout=timeout,
                           preexec_fn=_limit if cmd[:2] == ['cargo', 'kani'] else None)
        return p.returncode, p.stdout + '\n' + p.stderr, time.time() - t0
    except subprocess.TimeoutExpired as e:
        out = (e.stdout or b'').decode(errors='replace') if isinstance(e.stdout, bytes) else (e.stdout or '')
        err = (e.stderr or b'').decode(errors='replace') if isinstance(e.stderr, bytes) else (e.stderr or '')
        return 124, out + '\n' + err, time.time() - t0


def snapshot(repo, dest):
    os.makedirs(dest, exist_ok=True)
    rc, out, _ = sh(['rsync', '-a', '--delete', '--exclude', '/target', '--exclude', '/.git', repo.rstrip('/') + '/', dest + '/'])
    if rc != 0:
        raise RuntimeError('rsync failed: ' + out)


def cleanup(workdir):
    if os.environ.get('VERIF_KEEP'):
        return
    shutil.rmtree(os.path.join(workdir, 'repo'), ignore_errors=True)


def inject(unit, scratch):
    """Additive injection. Returns list of (file, added_lines)."""
    udir = os.path.join(HERE, 'units', 'kani', unit['unit'])
    added = []
    for target_rel, mod_file in unit.get('inject', []):
        tp = os.path.join(scratch, target_rel)
        if not os.path.exists(tp):
            from rustlex import ExtractError
            raise ExtractError(f'kani unit {unit["unit"]}: anchor file missing: {target_rel}')
        text = open(os.path.join(udir, mod_file)).read()
        with open(tp, 'a') as f:
            f.write('\n\n// ---- injected by /verif (cfg(kani) only) ----\n' + text)
        added.append((target_rel, text.count('\n') + 3))
    for anchor in unit.get('attrs', []):
        # contract attributes above a fn: {'file','before': regex of the fn line, 'lines': [...]}
        tp = os.path.join(scratch, anchor['file'])
        src = open(tp).read()
        hits = [m for m in re.finditer(anchor['before'], src, re.M)]
        if len(hits) != 1:
            from rustlex import ExtractError
            raise ExtractError(f'kani unit {unit["unit"]}: contract anchor `{anchor["before"]}` found {len(hits)} times in {anchor["file"]}')
        ls = src.rfind('\n', 0, hits[0].start()) + 1
        indent = re.match(r'\s*', src[ls:]).group(0)
        ins = ''.join(indent + l + '\n' for l in anchor['lines'])
        open(tp, 'w').write(src[:ls] + ins + src[ls:])
        added.append((anchor['file'], len(anchor['lines'])))
    for src_rel, dest_rel in unit.get('copy', []):
        sp = os.path.join(udir, src_rel)
        dp = os.path.join(scratch, dest_rel)
        if os.path.isdir(sp):
            shutil.copytree(sp, dp, dirs_exist_ok=True)
        else:
            os.makedirs(os.path.dirname(dp), exist_ok=True)
            shutil.copy(sp, dp)
        added.append((dest_rel, 'copied'))
    for member in unit.get('workspace_members', []):
        cp = os.path.join(scratch, 'Cargo.toml')
        c = open(cp).read()
        if f'"{member}"' not in c:
            c = c.replace('members = [', f'members = [\n    "{member}",', 1)
            open(cp, 'w').write(c)
            added.append(('Cargo.toml', f'workspace member {member}'))
    for file_rel, old, new in unit.get('replace', []):
        # the single non-additive rule (indexmap -> model); recorded in evidence
        fp = os.path.join(scratch, file_rel)
        c = open(fp).read()
        if new in c:
            continue
        if c.count(old) != 1:
            from rustlex import ExtractError
            raise ExtractError(f'kani unit {unit["unit"]}: replace anchor `{old}` found {c.count(old)} times in {file_rel}')
        open(fp, 'w').write(c.replace(old, new))
        added.append((file_rel, f'replaced `{old}`'))
    return added


HARNESS_SPLIT = re.compile(r'^(?:Thread \d+: )?Checking harness ([\w:<>]+)\.\.\.', re.M)


def parse_output(out, names):
    """Split cargo-kani output per harness (handles the `Thread N:` prefixes of -j runs).
    Returns {name: analysed body}."""
    cur = {}       # thread -> harness name
    bodies = {}    # harness -> list of lines
    active = None  # harness whose result block we are inside (unprefixed lines)
    for ln in out.splitlines():
        m = re.match(r'^(?:Thread (\d+): )?Checking harness ([\w:<>]+)\.\.\.', ln)
        if m:
            th = m.group(1) or '0'
            cur[th] = m.group(2)
            bodies.setdefault(m.group(2), [])
            active = m.group(2) if m.group(1) is None else active
            continue
        m = re.match(r'^Thread (\d+): ?(.*)$', ln)
        if m:
            h = cur.get(m.group(1))
            if h:
                bodies[h].append(m.group(2))
                active = h
            continue
        if re.match(r'^(Manual Harness Summary|Complete - )', ln):
            active = None
        if active:
            bodies[active].append(ln)
    return {k: analyse_body('\n'.join(v)) for k, v in bodies.items()}


def analyse_body(body):
    d = dict(raw=body)
    m = re.search(r'\*\* (\d+) of (\d+) failed', body)
    if m:
        d['failed'] = int(m.group(1))
        d['checks'] = int(m.group(2))
    tm = re.search(r'Verification Time: ([\d.]+)s', body)
    if tm:
        d['time_s'] = float(tm.group(1))
    if 'VERIFICATION:- SUCCESSFUL' in body:
        d['status'] = 'ok'
    elif 'VERIFICATION:- FAILED' in body:
        d['status'] = 'failed'
    else:
        d['status'] = 'undecided'
        d['reason'] = 'no verdict in output (time-out, out of memory or tool error)'
    if 'CBMC timed out' in body or 'CBMC failed' in body and 'Failed Checks' not in body:
        d['status'] = 'undecided'
        d['reason'] = 'CBMC timed out / was killed (tool limit, not a verdict)'
    descs = []
    for fm in re.finditer(r'Failed Checks: (.*)\n(?:\s*File: "([^"]*)", line (\d+), in ([^\n]*))?', body):
        descs.append(dict(desc=fm.group(1).strip(), file=fm.group(2), line=fm.group(3), fn=fm.group(4)))
    d['failed_checks'] = descs
    # unsatisfied cover => vacuous harness
    cm = re.search(r'\*\* (\d+) of (\d+) cover properties satisfied', body)
    if cm:
        d['covers'] = (int(cm.group(1)), int(cm.group(2)))
    return d


def classify(h, pr):
    """pr: analysed body for harness h (spec dict). Returns result dict for the driver."""
    r = dict(name=h['name'], unit=h['_unit'], tags=h['tags'], complete=h.get('complete', False), bound=h.get('bound'),
             functions=h.get('functions', []), checks=pr.get('checks'), time_s=pr.get('time_s'), optional=h.get('optional', False))
    if pr['status'] == 'ok':
        if pr.get('covers') and pr['covers'][0] < pr['covers'][1]:
            r.update(status='undecided', reason=f"vacuity guard: only {pr['covers'][0]} of {pr['covers'][1]} cover properties satisfied")
        else:
            r['status'] = 'ok'
        return r
    if pr['status'] == 'undecided':
        r.update(status='undecided', reason=pr.get('reason', '?') + ' :: ' + pr.get('raw', '')[-600:])
        return r
    # FAILED: separate real obligations from tool limits
    real, limits = [], []
    for fc in pr['failed_checks']:
        d = fc['desc']
        if 'unwinding assertion' in d or 'is not currently supported' in d or 'unsupported' in d.lower() or 'recursion unwinding' in d:
            limits.append(fc)
        else:
            real.append(fc)
    if not real:
        r.update(status='undecided', reason='only tool-limit checks failed: ' + '; '.join(x['desc'] for x in limits[:4]))
        return r
    ftags = []
    for fc in real:
        ftags += TAG_RE.findall(fc['desc'])
    r.update(status='failed', failed_tags=sorted(set(ftags)), failed_descriptions=[f"{x['desc']} @ {x.get('file')}:{x.get('line')}" for x in real],
             where=(real[0].get('file') or '') + ':' + str(real[0].get('line')), output_tail=pr['raw'][-6000:])
    return r


def kani_cmd(unit, names, extra=()):
    cmd = ['cargo', 'kani', '-p', unit['package'], '--target-dir', TARGET, '-Z', 'function-contracts', '-Z', 'stubbing',
           '-Z', 'unstable-options', '--output-format', 'terse', '--exact']
    cmd += list(unit.get('flags', []))
    for n in names:
        cmd += ['--harness', n]
    cmd += list(extra)
    return cmd


def run_units(pid, kspecs, repo, workdir, tier):
    scratch = os.path.join(workdir, 'repo')
    snapshot(repo, scratch)
    os.makedirs(TARGET, exist_ok=True)
    results, cmds, notes, trusted = [], [], [], {}
    solver_s = 0.0
    injected_units = set()
    for unit in kspecs:
        if unit['unit'] not in injected_units:
            added = inject(unit, scratch)
            injected_units.add(unit['unit'])
            notes.append(f"kani unit {unit['unit']}: injected {added}")
            udir = os.path.join(HERE, 'units', 'kani', unit['unit'])
            for root, _, files in os.walk(udir):
                for fn in files:
                    if fn.endswith('.rs'):
                        t = open(os.path.join(root, fn)).read()
                        for k in ('kani::assume', 'kani::stub', 'stub_verified', 'unsafe'):
                            if t.count(k):
                                trusted[f"kani:{unit['unit']}:{fn}:{k}"] = t.count(k)
    for unit in kspecs:
        hs = [h for h in unit['harnesses'] if tier == 'thorough' or h.get('tier', 'quick') == 'quick']
        hs = [h for h in hs if any(t.startswith(pid + '.') for t in h['tags'])]
        if os.environ.get('VERIF_ONLY'):
            hs = [h for h in hs if os.environ['VERIF_ONLY'] in h['name']]
        if not hs:
            continue
        for h in hs:
            h['_unit'] = unit['unit']
        names = [h['name'] for h in hs]
        jobs = min(len(names), unit.get('jobs', 8))
        budget = max(h.get('timeout', 300) for h in hs)
        cmd = kani_cmd(unit, names, ['-j', str(jobs), '--harness-timeout', f'{budget}s'])
        cmds.append(' '.join(cmd))
        rc, out, wall = sh(cmd, cwd=scratch, timeout=budget * max(1, (len(names) + jobs - 1) // jobs) + 900)
        open(os.path.join(workdir, f"kani-{unit['unit']}.log"), 'w').write(out)
        if 'error: could not compile' in out or re.search(r'^error(\[E\d+\])?:', out, re.M) and 'Checking harness' not in out:
            errs = '\n'.join(l for l in out.splitlines() if l.startswith('error'))[:1500]
            for h in hs:
                results.append(dict(name=h['name'], unit=unit['unit'], tags=h['tags'], complete=h.get('complete', False), bound=h.get('bound'), optional=h.get('optional', False),
                                    status='undecided', reason='harness crate does not compile against the current tree (lost anchor / changed API): ' + errs))
            continue
        parsed = parse_output(out, names)
        for h in hs:
            short = h['name']
            pr = None
            for k, v in parsed.items():
                if k == short or k.endswith('::' + short) or short.endswith('::' + k):
                    pr = v
            if pr is None:
                results.append(dict(name=h['name'], unit=unit['unit'], tags=h['tags'], complete=h.get('complete', False), bound=h.get('bound'), optional=h.get('optional', False),
                                    status='undecided', reason='harness not found in Kani output (timeout/OOM?) rc=%s tail=%s' % (rc, out[-800:])))
                continue
            r = classify(h, pr)
            solver_s += pr.get('time_s') or 0
            if r['status'] == 'failed':
                r['playback'] = playback(unit, h, scratch, workdir)
                if r['playback'] and r['playback'].get('attempted') and not r['playback'].get('reproduced') and not h.get('playback_optional'):
                    # counterexample does not reproduce on the natively compiled code: model/stub artefact => undecided
                    why = ('Kani found a counterexample but the native playback could not be run (build error / time-out): neither confirmed nor refuted: '
                           if r['playback'].get('no_verdict') else 'Kani counterexample did not reproduce natively (stub/model artefact suspected): ')
                    r.update(status='undecided', reason=why + r['playback'].get('text', '')[-800:])
            results.append(r)
    return dict(harnesses=results, cmds=cmds, notes=notes, trusted=trusted, solver_s=solver_s)


def playback(unit, h, scratch, workdir):
    """Re-run the failing harness with concrete playback, insert the generated test into the scratch source and run it natively."""
    if h.get('no_playback'):
        # the harness uses stubs that have no native counterpart: the counterexample cannot be executed natively, but
        # Kani's concrete values are still attached to the replay file
        cmd = kani_cmd(unit, [h['name']], ['-Z', 'concrete-playback', '--concrete-playback=print', '--harness-timeout', f"{h.get('timeout', 300)}s"])
        i = cmd.index('--output-format')
        cmd[i + 1] = 'regular'
        rc, out, wall = sh(cmd, cwd=scratch, timeout=h.get('timeout', 300) + 900)
        m = re.search(r'Concrete playback unit test for.*?```(.*?)```', out, re.S)
        vals = m.group(1).strip()[:6000] if m else '(no concrete values printed)'
        return dict(attempted=False, reproduced=False,
                    text='native playback not applicable (' + str(h.get('no_playback')) + ').\nKani counterexample (values of the kani::any() calls in harness order):\n' + vals)
    cmd = kani_cmd(unit, [h['name']], ['-Z', 'concrete-playback', '--concrete-playback=inplace', '--harness-timeout', f"{h.get('timeout', 300)}s"])
    cmd = [c for c in cmd if c != 'terse']
    i = cmd.index('--output-format')
    cmd[i:i + 1] = ['--output-format', 'regular']
    cmd = [c for j, c in enumerate(cmd) if not (c == '--output-format' and j != i)]
    rc, out, wall = sh(cmd, cwd=scratch, timeout=h.get('timeout', 300) + 900)
    m = re.search(r'kani_concrete_playback_\w+', out)
    # find generated test name in the source
    testname = None
    for root, _, files in os.walk(os.path.join(scratch, 'crates')):
        for fn in files:
            if fn.endswith('.rs'):
                t = open(os.path.join(root, fn)).read()
                mm = re.search(r'fn (kani_concrete_playback_\w+)', t)
                if mm:
                    testname = mm.group(1)
                    gen = t[t.rfind('#[test]', 0, mm.start()):]
                    gen = gen[:gen.find('\n}\n') + 3] if '\n}\n' in gen else gen[:3000]
    if not testname:
        return dict(attempted=True, reproduced=False, text='no concrete playback test generated\n' + out[-1500:])
    env = dict(ENV, CARGO_PROFILE_TEST_LTO='off', CARGO_PROFILE_DEV_LTO='off', CARGO_TARGET_DIR=TARGET + '-playback')
    pcmd = ['cargo', 'kani', 'playback', '-Z', 'concrete-playback', '-p', unit['package'], '--', 'kani_concrete_playback']
    rc2, out2, wall2 = sh(pcmd, cwd=scratch, timeout=3600, env=env)
    reproduced = ('panicked at' in out2 or 'FAILED' in out2) and 'test result: FAILED' in out2
    if not reproduced and 'test result: ok' not in out2:
        # the native test never ran (build error, time-out): this says nothing about the counterexample
        return dict(attempted=True, reproduced=False, no_verdict=True,
                    text='native playback could not be run (build error or time-out), so the counterexample is neither confirmed nor refuted\n' + out2[-2500:])
    keep = '\n'.join(l for l in out2.splitlines() if re.match(r'^(test |thread |failures:|    \w|test result|\s+left:|\s+right:|---- )', l) or 'panicked' in l)
    txt = f"$ CARGO_TARGET_DIR={TARGET}-playback {' '.join(pcmd)}\n---- generated test (first) ----\n{gen[:2500]}\n---- native run ----\n{keep[-3000:]}"
    return dict(attempted=True, reproduced=reproduced, text=txt)


def setup(repo):
    """Warm caches: Verus start-up and the Kani dependency build (third-party crates compiled once)."""
    os.makedirs(TARGET, exist_ok=True)
    t0 = time.time()
    probe = os.path.join(CACHE, 'warm.rs')
    open(probe, 'w').write('use vstd::prelude::*;\nverus!{ proof fn t() ensures 1 + 1 == 2int {} }\nfn main(){}\n')
    rc, out, _ = sh(['verus', probe], cwd=CACHE, timeout=300)
    print('verus warm-up rc', rc)
    # differential test of the executable indexmap model against the real crate (an assumed dependency contract, cross-checked)
    rc, out, wall = sh(['cargo', 'test', '--offline', '--manifest-path', os.path.join(HERE, 'models', 'difftest', 'Cargo.toml'),
                        '--target-dir', os.path.join(CACHE, 'difftest-target'), '--', '--nocapture'], timeout=1800)
    m = re.search(r'indexmap_model difftest: (\d+) operations compared', out)
    print('setup: indexmap_model difftest rc', rc, (m.group(0) if m else out[-1500:]))
    open(os.path.join(CACHE, 'difftest.txt'), 'w').write((m.group(0) if m else 'FAILED') + '\n')
    ok_diff = rc == 0 and m is not None
    import props as P
    seen = set()
    scratch = os.path.join(os.environ.get('VERIF_SCRATCH', '/var/tmp/aquatic-verif'), 'setup', 'repo')
    snapshot(repo, scratch)
    ok = True
    for pid, spec in P.PROPS.items():
        for unit in spec.get('kani', []):
            if unit['unit'] in seen:
                continue
            seen.add(unit['unit'])
            try:
                inject(unit, scratch)
            except Exception as e:
                print('setup: inject failed for', unit['unit'], e)
                ok = False
    pk = sorted(set(u['package'] for s in P.PROPS.values() for u in s.get('kani', [])))
    for p in pk:
        cmd = ['cargo', 'kani', '-p', p, '--target-dir', TARGET, '-Z', 'function-contracts', '-Z', 'stubbing', '--only-codegen']
        rc, out, wall = sh(cmd, cwd=scratch, timeout=3600)
        print(f'setup: kani codegen {p}: rc={rc} {wall:.0f}s')
        if rc != 0:
            print(out[-3000:])
            ok = False
    # warm the native build that concrete playback needs (third-party crates compiled once into the playback target dir), so that
    # confirming a counterexample later is a matter of minutes; failure here is not fatal (playback then just takes longer)
    for p in [x for x in pk if x == 'aquatic_udp']:     # its dependency set covers the other packages'; one warm-up keeps setup short
        rc, out, wall = sh(['cargo', 'kani', 'playback', '-Z', 'concrete-playback', '-p', p, '--', 'kani_concrete_playback_no_such_test'], cwd=scratch, timeout=1200,
                           env=dict(ENV, CARGO_PROFILE_TEST_LTO='off', CARGO_PROFILE_DEV_LTO='off', CARGO_TARGET_DIR=TARGET + '-playback'))
        print(f'setup: playback warm-up {p}: rc={rc} {wall:.0f}s')
    shutil.rmtree(os.path.dirname(scratch), ignore_errors=True)
    print(f'setup done in {time.time()-t0:.0f}s')
    return 0 if (ok and ok_diff) else 1
