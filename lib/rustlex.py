"""Minimal Rust lexer / item locator used by the extractor.

It understands exactly enough of the lexical grammar to (a) blank out comments,
string / raw-string / byte-string / char literals so that brace matching and
keyword searches are safe, (b) find an item (fn / struct / enum / const / type /
impl block) by name at a given nesting level and (c) split a `fn` into
attributes, signature and body.  Anything it does not recognise raises
ExtractError, which the driver maps to exit 2 (undecided), never to an alarm.
"""
import re


class ExtractError(Exception):
    pass


def mask(src: str, bstr_spans=None) -> str:
    """Return a string of the same length as src in which the *contents* of
    comments, strings and char literals are replaced by spaces (newlines kept).
    Delimiters of strings are replaced too, so the result contains only code."""
    out = list(src)
    i, n = 0, len(src)

    def blank(a, b):
        for k in range(a, b):
            if out[k] != '\n':
                out[k] = ' '

    while i < n:
        c = src[i]
        if c == '/' and src.startswith('//', i):
            j = src.find('\n', i)
            j = n if j < 0 else j
            blank(i, j)
            i = j
        elif c == '/' and src.startswith('/*', i):
            depth, j = 1, i + 2
            while j < n and depth:
                if src.startswith('/*', j):
                    depth += 1
                    j += 2
                elif src.startswith('*/', j):
                    depth -= 1
                    j += 2
                else:
                    j += 1
            blank(i, j)
            i = j
        elif c == '"' or (c == 'b' and src.startswith('b"', i) and not _ident_before(src, i)):
            j = i + (2 if c == 'b' else 1)
            while j < n and src[j] != '"':
                j += 2 if src[j] == '\\' else 1
            if c == 'b' and bstr_spans is not None:
                bstr_spans.append((i, j + 1))
            blank(i, j + 1)
            i = j + 1
        elif c in 'rb' and not _ident_before(src, i) and re.match(r'b?r#*"', src[i:i + 40]):
            m = re.match(r'b?r(#*)"', src[i:])
            hashes = m.group(1)
            end = src.find('"' + hashes, i + m.end())
            if end < 0:
                raise ExtractError('unterminated raw string')
            j = end + 1 + len(hashes)
            blank(i, j)
            i = j
        elif c == "'":
            # char literal or lifetime
            m = re.match(r"'(\\x[0-9a-fA-F]{2}|\\u\{[0-9a-fA-F_]+\}|\\.|[^\\'])'", src[i:i + 14])
            if m:
                blank(i, i + m.end())
                i += m.end()
            else:
                i += 1  # lifetime
        else:
            i += 1
    return ''.join(out)


def byte_string_literals(src: str):
    """(start, end, bytes) of every plain byte-string literal b"..." in src (comments / other literals skipped)."""
    spans = []
    mask(src, spans)
    out = []
    for (i, e) in spans:
        j = i + 2
        val = bytearray()
        while j < e - 1:
            if src[j] == '\\':
                c = src[j + 1]
                if c == 'x':
                    val.append(int(src[j + 2:j + 4], 16)); j += 4
                elif c in 'nrt0\\"\'':
                    val.append({'n': 10, 'r': 13, 't': 9, '0': 0, '\\': 92, '"': 34, "'": 39}[c]); j += 2
                else:
                    raise ExtractError('unsupported escape in byte string literal')
            else:
                if ord(src[j]) > 127:
                    raise ExtractError('non-ASCII character in byte string literal')
                val.append(ord(src[j])); j += 1
        out.append((i, e, bytes(val)))
    return out


def _ident_before(src, i):
    return i > 0 and (src[i - 1].isalnum() or src[i - 1] == '_')


OPEN = {'{': '}', '(': ')', '[': ']'}
CLOSE = {v: k for k, v in OPEN.items()}


def match_close(m: str, i: int) -> int:
    """m[i] is an opening bracket in masked text; return index of its partner."""
    stack = []
    for j in range(i, len(m)):
        ch = m[j]
        if ch in OPEN:
            stack.append(ch)
        elif ch in CLOSE:
            if not stack or stack[-1] != CLOSE[ch]:
                raise ExtractError(f'unbalanced bracket at {j}')
            stack.pop()
            if not stack:
                return j
    raise ExtractError('unterminated bracket')


def norm_ws(s: str) -> str:
    return re.sub(r'\s+', ' ', s).strip()


def _attr_start(src: str, m: str, item_start: int, lo: int) -> int:
    """Walk backwards from item_start over attributes, doc comments and blank
    space that belong to the item; return the new start (>= lo)."""
    pos = item_start
    while True:
        # skip whitespace backwards
        j = pos
        while j > lo and src[j - 1] in ' \t\n':
            j -= 1
        if j <= lo:
            return pos
        # attribute ending with ']'
        if m[j - 1] == ']':
            depth = 0
            k = j - 1
            while k >= lo:
                if m[k] == ']':
                    depth += 1
                elif m[k] == '[':
                    depth -= 1
                    if depth == 0:
                        break
                k -= 1
            if k > lo and m[k - 1] == '#':
                pos = k - 1
                continue
            if k > lo + 1 and m[k - 2:k] == '#!':
                return pos
            return pos
        # doc / line comment directly above
        ls = src.rfind('\n', lo, j - 1) + 1
        line = src[ls:j]
        if line.strip().startswith('//'):
            pos = ls + (len(line) - len(line.lstrip()))
            continue
        return pos


def find_blocks(src: str, m: str, lo: int, hi: int, head_re: str):
    """Yield (start, brace_open, brace_close) of items whose header matches
    head_re (applied to masked text) at nesting depth 0 relative to [lo,hi)."""
    depth = 0
    i = lo
    rx = re.compile(head_re)
    while i < hi:
        ch = m[i]
        if ch in OPEN:
            depth += 1
        elif ch in CLOSE:
            depth -= 1
        elif depth == 0:
            mt = rx.match(m, i)
            if mt and not _ident_before(m, i):
                yield mt
                i = mt.end() - 1
        i += 1


def top_items(src, m, lo, hi, keyword_re):
    return list(find_blocks(src, m, lo, hi, keyword_re))


class Source:
    def __init__(self, path, text):
        self.path = path
        self.text = text
        self.m = mask(text)

    def line_of(self, off):
        return self.text.count('\n', 0, off) + 1

    # ---- containers -------------------------------------------------
    def find_impl(self, header: str, lo=0, hi=None):
        """header: the literal impl header (`impl<I: Ip> PeerMap<I>`), whitespace-normalised.
        Returns (body_lo, body_hi) offsets strictly inside the braces."""
        hi = len(self.text) if hi is None else hi
        want = norm_ws(header)
        hits = []
        for mt in find_blocks(self.text, self.m, lo, hi, r'(?:unsafe\s+)?impl\b'):
            b = self.m.find('{', mt.start())
            if b < 0:
                continue
            if norm_ws(self.text[mt.start():b]) == want:
                hits.append((b + 1, match_close(self.m, b)))
        if len(hits) != 1:
            raise ExtractError(f'{self.path}: impl header `{want}` found {len(hits)} times')
        return hits[0]

    def find_mod(self, name, lo=0, hi=None):
        hi = len(self.text) if hi is None else hi
        hits = []
        for mt in find_blocks(self.text, self.m, lo, hi, r'(?:pub(?:\([^)]*\))?\s+)?mod\s+' + re.escape(name) + r'\s*\{'):
            b = mt.end() - 1
            hits.append((b + 1, match_close(self.m, b)))
        if len(hits) != 1:
            raise ExtractError(f'{self.path}: mod `{name}` found {len(hits)} times')
        return hits[0]

    # ---- leaf items --------------------------------------------------
    def find_fn(self, name, lo=0, hi=None):
        """Returns dict(start, sig_start, body_open, body_close, end) for `fn name` at depth 0 of [lo,hi)."""
        hi = len(self.text) if hi is None else hi
        rx = r'(?:pub(?:\([^)]*\))?\s+)?(?:const\s+)?(?:async\s+)?(?:unsafe\s+)?fn\s+' + re.escape(name) + r'\b'
        hits = list(find_blocks(self.text, self.m, lo, hi, rx))
        if len(hits) != 1:
            raise ExtractError(f'{self.path}: fn `{name}` found {len(hits)} times in range')
        mt = hits[0]
        # body: first '{' at paren/bracket depth 0 after the name
        i = mt.end()
        depth = 0
        body_open = None
        while i < hi:
            ch = self.m[i]
            if ch in '([':
                depth += 1
            elif ch in ')]':
                depth -= 1
            elif ch == '{' and depth == 0:
                body_open = i
                break
            elif ch == ';' and depth == 0:
                raise ExtractError(f'{self.path}: fn `{name}` has no body')
            i += 1
        if body_open is None:
            raise ExtractError(f'{self.path}: fn `{name}`: body not found')
        body_close = match_close(self.m, body_open)
        start = _attr_start(self.text, self.m, mt.start(), lo)
        return dict(start=start, sig_start=mt.start(), body_open=body_open, body_close=body_close, end=body_close + 1)

    def find_item(self, kind, name, lo=0, hi=None):
        """kind in struct|enum|const|type|static|trait. Returns (start, head_start, end)."""
        hi = len(self.text) if hi is None else hi
        rx = r'(?:pub(?:\([^)]*\))?\s+)?' + kind + r'\s+' + re.escape(name) + r'\b'
        hits = list(find_blocks(self.text, self.m, lo, hi, rx))
        if len(hits) != 1:
            raise ExtractError(f'{self.path}: {kind} `{name}` found {len(hits)} times in range')
        mt = hits[0]
        i = mt.end()
        end = None
        if kind in ('const', 'static', 'type'):
            depth = 0
            while i < hi:
                ch = self.m[i]
                if ch in OPEN:
                    depth += 1
                elif ch in CLOSE:
                    depth -= 1
                elif ch == ';' and depth == 0:
                    end = i + 1
                    break
                i += 1
        else:
            while i < hi:
                ch = self.m[i]
                if ch == '{':
                    end = match_close(self.m, i) + 1
                    break
                if ch == '(' and kind == 'struct':
                    j = match_close(self.m, i)
                    k = self.m.find(';', j)
                    end = k + 1
                    break
                if ch == ';':
                    end = i + 1
                    break
                i += 1
        if end is None:
            raise ExtractError(f'{self.path}: {kind} `{name}`: end not found')
        start = _attr_start(self.text, self.m, mt.start(), lo)
        return start, mt.start(), end
