"""Mechanical extraction of real items from the /repo snapshot into a Verus unit.

A unit template (units/verus/<unit>.rs.tmpl) is ordinary Verus text (prelude,
spec functions, lemmas) with directives:

  //@ITEM <file> | <kind> <name>                       struct / enum / const / type, verbatim (rules E3, D3)
  //@FN <file> | <impl header or -> | <fn name> [| key=value ...]
      <contract text: requires / ensures / ... each clause ending in `// [TAG]`>
  //@LOOP <k>
      <invariant / decreases text for the k-th loop of the body (0-based)>
  //@END

FN emits:  <signature with `-> (ret: T)`>  <contract>  <body verbatim modulo D1/D2/D3>.
Nothing else is ever inserted into a body.  Every rule application is recorded.
"""
import hashlib
import os
import re

from rustlex import Source, ExtractError, mask, match_close, norm_ws, byte_string_literals

LOG_RE = re.compile(r'(?:::)?log::(?:trace|debug|info|warn|error)!\s*\(')
CFG_FEATURE_RE = re.compile(r'#\[cfg\(feature\s*=\s*"(metrics|prometheus)"\)\]')
DROP_ATTR_RE = re.compile(r'#\[(inline(\([a-z]+\))?|allow\([^\]]*\)|must_use|doc\s*=[^\]]*)\]')
KEEP_DERIVES = ('Clone', 'Copy', 'PartialEq', 'Eq')


class Seg:
    """text with optional origin offset in the source file"""
    __slots__ = ('text', 'off')

    def __init__(self, text, off=None):
        self.text = text
        self.off = off


def _stmt_end(m, i, hi):
    """m[i] starts a statement/item/param inside masked text; return index one past
    its end: after `;` at depth 0, or after a closing `}` of a block-like statement
    (not followed by else), or before a `,` / `)` at depth 0 (parameter / field)."""
    depth = 0
    j = i
    while j < hi:
        ch = m[j]
        if ch in '([{':
            if ch == '{' and depth == 0:
                k = match_close(m, j)
                # block statement ends here unless followed by `else`
                rest = m[k + 1:hi].lstrip()
                if rest.startswith('else'):
                    j = k + 1
                    continue
                if rest.startswith(';'):
                    return m.index(';', k) + 1
                if rest.startswith('.') or rest.startswith('?'):
                    j = k + 1
                    continue
                return k + 1
            depth += 1
        elif ch in ')]}':
            if depth == 0:
                return j
            depth -= 1
        elif ch == ';' and depth == 0:
            return j + 1
        elif ch == ',' and depth == 0:
            return j + 1
        j += 1
    return hi


def _apply_deletions(text, base_off, dels):
    """dels: sorted non-overlapping (a,b) relative to text. Returns list[Seg]."""
    segs = []
    pos = 0
    for d in dels:
        a, b = d[0], d[1]
        if a > pos:
            segs.append(Seg(text[pos:a], base_off + pos))
        if len(d) > 2:
            segs.append(Seg(d[2]))
        pos = max(pos, b)
    if pos < len(text):
        segs.append(Seg(text[pos:], base_off + pos))
    return segs


def _swallow_line(text, a, b):
    """extend deletion (a,b) to the whole line(s) if nothing else is on them"""
    ls = text.rfind('\n', 0, a) + 1
    le = text.find('\n', b)
    le = len(text) if le < 0 else le
    if text[ls:a].strip() == '' and text[b:le].strip() == '':
        return ls, min(le + 1, len(text))
    return a, b


def body_deletions(text, rules):
    """D1 (cfg(feature=metrics|prometheus) gated statements / params) and
    D2 (log macro statements) on a fn text (signature+body). Returns deletions."""
    m = mask(text)
    dels = []
    for mt in CFG_FEATURE_RE.finditer(m):
        # CFG_FEATURE_RE cannot match on masked text because the string is blanked; use raw text guarded by mask '#'
        pass
    for mt in re.finditer(r'#\[cfg\(', m):
        close = match_close(m, mt.start() + 1)
        attr = text[mt.start():close + 1]
        if not CFG_FEATURE_RE.fullmatch(attr):
            raise ExtractError(f'unsupported cfg attribute inside extracted fn: {attr}')
        j = close + 1
        while j < len(m) and m[j] in ' \t\n':
            j += 1
        end = _stmt_end(m, j, len(m))
        a, b = _swallow_line(text, mt.start(), end)
        dels.append((a, b))
        rules.append(('D1', attr, norm_ws(text[j:end])[:80]))
    for mt in LOG_RE.finditer(m):
        # must be at statement start
        k = mt.start() - 1
        while k >= 0 and m[k] in ' \t\n':
            k -= 1
        if k >= 0 and m[k] not in '{};':
            continue
        p = mt.end() - 1
        close = match_close(m, p)
        j = close + 1
        while j < len(m) and m[j] in ' \t\n':
            j += 1
        if j < len(m) and m[j] == ';':
            end = j + 1
        else:
            end = close + 1  # tail expression of type (): replaced by nothing
        if any(a <= mt.start() < b for a, b in dels):
            continue
        a, b = _swallow_line(text, mt.start(), end)
        dels.append((a, b))
        rules.append(('D2', norm_ws(text[mt.start():mt.end()]), ''))
    # D6: the empty `vec![]` macro call is replaced by the equivalent `Vec::new()` (unit preludes shadow std's Vec)
    for mt in re.finditer(r'\bvec!\s*\[\s*\]', m):
        dels.append((mt.start(), mt.end(), 'Vec::new()'))
        rules.append(('D6', 'vec![] -> Vec::new()', ''))
    # D7: error VALUES built by `anyhow::anyhow!(..)` / `format!(..)` are replaced by opaque constants of the unit prelude
    # (`anyhow::opaque_error()` / `opaque_message()`); which branch returns an error is unchanged, only its text is abstracted
    for mt in re.finditer(r'(?<![\w:])(?:::)?anyhow::anyhow!\s*\(', m):
        close = match_close(m, mt.end() - 1)
        dels.append((mt.start(), close + 1, 'anyhow::opaque_error()'))
        rules.append(('D7', 'anyhow::anyhow!(..) -> anyhow::opaque_error()', norm_ws(text[mt.start():close + 1])[:80]))
    for mt in re.finditer(r'(?<![\w:!])format!\s*\(', m):
        close = match_close(m, mt.end() - 1)
        if any(a <= mt.start() < b for a, b, *_ in dels):
            continue
        dels.append((mt.start(), close + 1, 'opaque_message()'))
        rules.append(('D7', 'format!(..) -> opaque_message()', norm_ws(text[mt.start():close + 1])[:80]))
    # D4: `::indexmap::` names an extern crate; in the one-file unit the stub module is `indexmap::` (in scope via the prelude)
    for mt in re.finditer(r'(?<![\w:])::(indexmap|serde)::', m):
        dels.append((mt.start(), mt.end(), mt.group(1) + '::'))
        rules.append(('D4', f'::{mt.group(1)}:: -> {mt.group(1)}::', ''))
    for mt in re.finditer(r'(?<![\w:])::std::(fs|io|str)::', m):
        dels.append((mt.start(), mt.end(), mt.group(1) + '::'))
        rules.append(('D4', f'::std::{mt.group(1)}:: -> {mt.group(1)}::', ''))
    dels.sort(key=lambda d: (d[0], d[1]))
    return dels


def split_top(text):
    """split at commas that are not nested in brackets / angle brackets"""
    out, d, cur = [], 0, ''
    for ch in text:
        if ch in '([{<':
            d += 1
        elif ch in ')]}>':
            d -= 1
        if ch == ',' and d == 0:
            out.append(cur)
            cur = ''
        else:
            cur += ch
    out.append(cur)
    return out


def closure_param_name(p):
    p = p.split(':', 1)[0].strip()
    return re.sub(r'^(mut|ref)\s+', '', p)


def find_closures(mb):
    """closures of a masked function body, in source order: (param_open, param_close, body_start, body_end, is_block).
    A closure starts with `|` (optionally after `move`) where an expression is expected: after `(`, `,`, `=` or `move`."""
    out = []
    i = 0
    n = len(mb)
    while i < n:
        if mb[i] == '|':
            j = i - 1
            while j >= 0 and mb[j] in ' \t\n':
                j -= 1
            prev = mb[j] if j >= 0 else ''
            is_move = mb[max(0, j - 3):j + 1] == 'move' and (j < 4 or not (mb[j - 4].isalnum() or mb[j - 4] == '_'))
            if prev in '(,=' or is_move:
                if mb.startswith('||', i):
                    p_open, p_close = i, i + 1
                else:
                    p_open = i
                    p_close = mb.find('|', i + 1)
                    if p_close < 0:
                        raise ExtractError('unterminated closure parameter list')
                b = p_close + 1
                while b < n and mb[b] in ' \t\n':
                    b += 1
                if mb[b] == '{':
                    e = match_close(mb, b) + 1
                    out.append((p_open, p_close, b, e, True))
                else:
                    d = 0
                    e = b
                    while e < n:
                        if mb[e] in '([{':
                            d += 1
                        elif mb[e] in ')]}':
                            if d == 0:
                                break
                            d -= 1
                        elif mb[e] in ',;' and d == 0:
                            break
                        e += 1
                    out.append((p_open, p_close, b, e, False))
                i = p_close + 1
                continue
            elif mb.startswith('||', i):
                i += 2
                continue
        i += 1
    return out


def strip_leading_attrs(text, rules, what):
    """Remove doc comments and harmless attributes before an item (D3).  Returns
    (kept_attrs_text, rest_offset).  Unknown attributes raise."""
    m = mask(text)
    i = 0
    kept = []
    while True:
        while i < len(text) and text[i] in ' \t\n':
            i += 1
        if text.startswith('//', i):
            j = text.find('\n', i)
            rules.append(('D3', 'comment', ''))
            i = j + 1
            continue
        if m.startswith('#[', i):
            close = match_close(m, i + 1)
            attr = text[i:close + 1]
            if DROP_ATTR_RE.fullmatch(attr):
                rules.append(('D3', attr, ''))
            elif attr.startswith('#[derive('):
                kept.append(attr)
            elif attr.startswith('#[repr(') or attr.startswith('#[serde(') or attr.startswith('#[cfg_attr('):
                rules.append(('D3r', attr, ''))
            else:
                raise ExtractError(f'{what}: unsupported attribute {attr}')
            i = close + 1
            continue
        break
    return kept, i


def rewrite_derive(attr, rules):
    names = [x.strip() for x in attr[len('#[derive('):-2].split(',') if x.strip()]
    keep = [n for n in names if n.split('::')[-1] in KEEP_DERIVES]
    dropped = [n for n in names if n not in keep]
    keep = [n.split('::')[-1] for n in keep]
    if 'PartialEq' in keep and 'Eq' in keep:
        keep.append('Structural')
    rules.append(('E3', attr, 'kept=' + ','.join(keep) + ' dropped=' + ','.join(dropped)))
    return '#[derive(' + ', '.join(keep) + ')]' if keep else ''


class Extractor:
    def __init__(self, repo_root):
        self.root = repo_root
        self.cache = {}
        self.records = []  # evidence: per extracted item

    def src(self, rel):
        if rel not in self.cache:
            p = os.path.join(self.root, rel)
            if not os.path.exists(p):
                raise ExtractError(f'anchor file missing: {rel}')
            self.cache[rel] = Source(rel, open(p).read())
        return self.cache[rel]

    def _scope(self, S, container):
        lo, hi = 0, len(S.text)
        if container and container != '-':
            for part in container.split('>>'):
                part = part.strip()
                if part.startswith('mod '):
                    lo, hi = S.find_mod(part[4:].strip(), lo, hi)
                else:
                    lo, hi = S.find_impl(part, lo, hi)
        return lo, hi

    def item(self, rel, kind, name, opts):
        S = self.src(rel)
        lo, hi = self._scope(S, opts.get('in', '-'))
        start, head, end = S.find_item(kind, name, lo, hi)
        raw = S.text[start:end]
        rules = []
        kept, off = strip_leading_attrs(raw, rules, f'{kind} {name}')
        out = []
        for a in kept:
            if 'derive' in opts:
                want = [] if opts['derive'] == 'none' else opts['derive'].split(',')
                rules.append(('E3', norm_ws(a), 'kept=' + ','.join(want) + ' (unit override)'))
                d = '#[derive(' + ', '.join(want) + ')]' if want else ''
            else:
                d = rewrite_derive(a, rules)
            if d:
                out.append(Seg(d + '\n'))
        body = raw[off:]
        # field-level attributes / doc comments inside the item
        mm = mask(body)
        dels = []
        for mt in re.finditer(r'#\[', mm):
            close = match_close(mm, mt.start() + 1)
            attr = body[mt.start():close + 1]
            if attr.startswith('#[serde(') or DROP_ATTR_RE.fullmatch(attr) or attr.startswith('#[cfg_attr(') or attr == '#[default]':   # `#[default]` only matters to derive(Default), which E3 drops
                dels.append(_swallow_line(body, mt.start(), close + 1))
                rules.append(('D3r', attr, 'field attribute'))
            elif CFG_FEATURE_RE.fullmatch(attr):
                j = close + 1
                while mm[j] in ' \t\n':
                    j += 1
                e = _stmt_end(mm, j, len(mm))
                dels.append(_swallow_line(body, mt.start(), e))
                rules.append(('D1', attr, norm_ws(body[j:e])[:80]))
            else:
                raise ExtractError(f'{kind} {name}: unsupported inner attribute {attr}')
        if opts.get('vis') == 'pub':
            # rule V1: raise visibility of the item and of its fields to `pub` (no effect inside a one-crate unit;
            # needed because Verus forbids public contracts that mention private fields)
            if not body.startswith('pub'):
                out.append(Seg('pub '))
            if kind == 'struct':
                ob = re.search(r'[({]', mm)
                if ob:
                    cb = match_close(mm, ob.start())
                    depth = 0
                    fstart = ob.start() + 1
                    j = fstart
                    inserts = []
                    expect_field = True
                    while j < cb:
                        ch = mm[j]
                        if expect_field and not ch.isspace():
                            if ch == '#':
                                j = match_close(mm, j + 1) + 1
                                continue
                            if not mm.startswith('pub', j):
                                inserts.append(j)
                            expect_field = False
                        if ch in '([{<':
                            depth += 1
                        elif ch in ')]}>' and not (ch == '>' and mm[j - 1] == '-'):
                            depth -= 1
                        elif ch == ',' and depth == 0:
                            expect_field = True
                        j += 1
                    for pos in inserts:
                        dels.append((pos, pos, 'pub '))
                    rules.append(('V1', 'visibility raised to pub', f'{len(inserts)} fields'))
        if opts.get('nodiscr'):
            # rule D5: drop explicit enum discriminants (`Variant = <expr>,`); they only fix the wire value (C13)
            b0 = mm.index('{')
            for mt in re.finditer(r'=[^,}]*', mm[b0:]):
                dels.append((b0 + mt.start(), b0 + mt.end()))
                rules.append(('D5', 'discriminant dropped', norm_ws(body[b0 + mt.start():b0 + mt.end()])))
        # drop insertions that fall inside a deleted region (e.g. `pub ` for a cfg-gated field)
        real = [d for d in dels if len(d) == 2]
        dels = real + [d for d in dels if len(d) > 2 and not any(a <= d[0] < b for a, b in real)]
        dels.sort(key=lambda d: (d[0], d[1]))
        out += _apply_deletions(body, start + off, dels)
        out.append(Seg('\n'))
        self.records.append(dict(kind=kind, name=name, file=rel, lines=[S.line_of(start), S.line_of(end - 1)],
                                 sha256=hashlib.sha256(raw.encode()).hexdigest(), rules=rules))
        return out, S

    def fn(self, rel, container, name, opts, contract, loops, closures=None, retains=None):
        S = self.src(rel)
        lo, hi = self._scope(S, container)
        f = S.find_fn(name, lo, hi)
        raw = S.text[f['start']:f['end']]
        rules = []
        _, off = strip_leading_attrs(raw, rules, f'fn {name}')
        if _:
            raise ExtractError(f'fn {name}: derive on fn?')
        sig_start = f['sig_start']
        assert f['start'] + off == sig_start, (f['start'], off, sig_start)
        sig = S.text[sig_start:f['body_open']]
        body = S.text[f['body_open']:f['end']]
        if opts.get('asyncseq'):
            # rule AS1: an `async fn` is verified under its single-task sequential semantics: the `async` keyword is dropped and
            # `EXPR.await` stands for the completion value of EXPR (the awaited calls are synchronous stubs of the unit's prelude).
            # What other tasks do while this one is suspended at an await point is NOT covered (that is C04 / C17 territory).
            msig0 = mask(sig)
            am = re.search(r'\basync\s+(?=fn\b)', msig0)
            if not am:
                raise ExtractError(f'fn {name}: asyncseq requested but the function is not an async fn')
            sig = sig[:am.start()] + ' ' * (am.end() - am.start()) + sig[am.end():]
            rules.append(('AS1', 'async fn verified under single-task sequential semantics: `async` dropped', ''))
        # ---- signature: name the return value (E1) ----
        msig = mask(sig)
        depth = 0
        arrow = None
        for i, ch in enumerate(msig):
            if ch in '([':
                depth += 1
            elif ch in ')]':
                depth -= 1
            elif ch == '-' and msig.startswith('->', i) and depth == 0:
                arrow = i
                break
        sig_dels = body_deletions(sig, rules)
        segs = []
        if arrow is not None:
            wm = re.search(r'\bwhere\b', msig[arrow:])
            tend = arrow + wm.start() if wm else len(sig)
            ty = ''.join(sg.text for sg in _apply_deletions(sig[arrow + 2:tend], 0, [(d[0] - arrow - 2, d[1] - arrow - 2) + tuple(d[2:]) for d in sig_dels if arrow + 2 <= d[0] and d[1] <= tend])).strip()
            retname = opts.get('ret', 'ret')
            pre = _apply_deletions(sig[:arrow], sig_start, [d for d in sig_dels if d[1] <= arrow])
            segs += pre
            segs.append(Seg(f'-> ({retname}: {ty})\n'))
            if wm:
                wdels = [(d[0] - tend, d[1] - tend) + tuple(d[2:]) for d in sig_dels if d[0] >= tend]
                segs += _apply_deletions(sig[tend:], sig_start + tend, wdels)
            rules.append(('E1', 'named return value', retname))
        else:
            segs += _apply_deletions(sig, sig_start, sig_dels)
            if segs and not segs[-1].text.endswith('\n'):
                segs.append(Seg('\n'))
        if opts.get('vis') == 'pub' and not sig.lstrip().startswith('pub'):
            segs.insert(0, Seg('pub '))
        if opts.get('isolation') == 'false':
            # verifier option (specification only): facts established before a loop stay known inside it
            segs.insert(0, Seg('#[verifier::loop_isolation(false)]\n'))
            rules.append(('E1', 'verifier attribute loop_isolation(false)', ''))
        if opts.get('nodecr'):
            # verifier option (specification only): termination of this function is not claimed (event loop over a socket)
            segs.insert(0, Seg('#[verifier::exec_allows_no_decreases_clause]\n'))
            rules.append(('E1', 'verifier attribute exec_allows_no_decreases_clause (termination not claimed)', ''))
        if opts.get('rlimit'):
            # verifier option (specification only): solver resource budget for this function
            segs.insert(0, Seg(f"#[verifier::rlimit({int(opts['rlimit'])})]\n"))
            rules.append(('E1', f"verifier attribute rlimit({int(opts['rlimit'])})", ''))
        if opts.get('complexinv'):
            segs.insert(0, Seg('#[verifier::allow_complex_invariants]\n'))
            rules.append(('E1', 'verifier attribute allow_complex_invariants', ''))
        # ---- contract (E1) ----
        if contract.strip():
            segs.append(Seg(contract if contract.endswith('\n') else contract + '\n'))
            rules.append(('E1', 'contract spliced', f'{len(contract.splitlines())} lines'))
        # ---- body: D1/D2 deletions, E2 loop invariants ----
        dels = body_deletions(body, rules)
        inserts = []
        if loops:
            mb = mask(body)
            loop_pos = [mt for mt in re.finditer(r'\b(while|for|loop)\b', mb)]
            for k, inv in loops.items():
                if k >= len(loop_pos):
                    raise ExtractError(f'fn {name}: loop ordinal {k} not found')
                # body brace of the loop: first '{' at depth 0 after the keyword
                j = loop_pos[k].end()
                d = 0
                while j < len(mb):
                    if mb[j] in '([':
                        d += 1
                    elif mb[j] in ')]':
                        d -= 1
                    elif mb[j] == '{' and d == 0:
                        break
                    j += 1
                dm = re.search(r'^//@DESUGAR (\w+)\n?', inv, re.M)
                if dm:
                    # rule F1: `for PAT in EXPR { BODY }` is rewritten to its definition in the Rust Reference
                    #   { let mut IT = IntoIterator::into_iter(EXPR); loop INVARIANT { let PAT = match IT.next() { Some(v) => v, None => break }; BODY } }
                    # (Verus: "for-loops do not yet support continue"; `loop` does). BODY is unchanged; `continue` / `break` keep their meaning.
                    inv = inv.replace(dm.group(0), '')
                    itn = dm.group(1)
                    if loop_pos[k].group(1) != 'for':
                        raise ExtractError(f'fn {name}: loop {k} is not a `for` loop')
                    seg = mb[loop_pos[k].end():j]
                    im = re.search(r'\bin\b', seg)
                    if not im:
                        raise ExtractError(f'fn {name}: loop {k}: no `in`')
                    pat = body[loop_pos[k].end():loop_pos[k].end() + im.start()].strip()
                    expr = body[loop_pos[k].end() + im.end():j].strip()
                    close = match_close(mb, j)
                    dels.append((loop_pos[k].start(), j,
                                 '{ let mut ' + itn + ' = core::iter::IntoIterator::into_iter(' + expr + ');\nloop\n' + inv.rstrip('\n') + '\n'))
                    inserts.append((j + 1, ' let ' + pat + ' = match ' + itn + '.next() { Some(v__) => v__, None => break };', True))
                    inserts.append((close + 1, ' }', True))
                    rules.append(('F1', f'loop {k}: for-loop desugared (Rust Reference) to loop + next(), iterator named {itn}', norm_ws(pat + ' in ' + expr)[:80]))
                    rules.append(('E2', f'loop {k} invariant', f'{len(inv.splitlines())} lines'))
                    continue
                nm = re.search(r'^//@NAME (\w+)\n?', inv, re.M)
                if nm:
                    inv = inv.replace(nm.group(0), '')
                    # ghost name for the loop's iterator: `for PAT in NAME: EXPR` (specification only)
                    seg = mb[loop_pos[k].end():j]
                    im = re.search(r'\bin\b', seg)
                    if loop_pos[k].group(1) != 'for' or not im:
                        raise ExtractError(f'fn {name}: loop {k} is not a `for .. in ..` loop')
                    inserts.append((loop_pos[k].end() + im.end(), ' ' + nm.group(1) + ':', True))
                inserts.append((j, inv))
                rules.append(('E2', f'loop {k} invariant', f'{len(inv.splitlines())} lines'))
        # ---- E5: closure contracts (typed parameters, named return value, requires / ensures; the body is unchanged) ----
        if closures:
            mb = mask(body)
            cl_pos = find_closures(mb)
            for k, cl in closures.items():
                if k >= len(cl_pos):
                    raise ExtractError(f'fn {name}: closure ordinal {k} not found ({len(cl_pos)} closures)')
                p_open, p_close, b_start, b_end, is_block = cl_pos[k]
                bind = cl.get('bind')
                if bind:
                    # rule F2: a closure parameter that is a PATTERN is bound by `let PATTERN = <parameter>;` at the top of the body
                    # (the meaning of parameter patterns; Verus accepts only plain variables as closure parameters)
                    if norm_ws(body[p_open + 1:p_close]) != norm_ws(bind):
                        raise ExtractError(f'fn {name}: closure {k} has parameters {norm_ws(body[p_open + 1:p_close])!r}, the unit expects the pattern {bind!r}')
                    pname = closure_param_name(cl['params'])
                    let = ' let ' + bind + ' = ' + pname + ';'
                else:
                    have = [closure_param_name(x) for x in split_top(body[p_open + 1:p_close]) if x.strip()]
                    want = [closure_param_name(x) for x in split_top(cl['params']) if x.strip()]
                    if have != want:
                        raise ExtractError(f'fn {name}: closure {k} has parameters {have}, the unit expects {want}')
                    let = ''
                dels.append((p_open + 1, p_close, cl['params']))
                spec = ' -> (' + cl['ret'] + ')\n' + cl['spec'].rstrip('\n') + '\n'
                if is_block:
                    inserts.append((b_start, spec, True))
                    if let:
                        inserts.append((b_start + 1, let, True))
                else:
                    inserts.append((b_start, spec + '{' + let + ' ', True))
                    inserts.append((b_end, ' }', True))
                rules.append(('E5', f'closure {k} contract', norm_ws(cl['params'] + ' -> ' + cl['ret'])[:80]))
                if bind:
                    rules.append(('F2', f'closure {k}: parameter pattern bound by let', norm_ws(bind)[:80]))
            dels.sort(key=lambda d: (d[0], d[1]))
        # ---- R1: `RECV.retain(|PARAMS| BODY);` desugared to a cursor loop (documented semantics of indexmap / hashbrown / arrayvec
        #      `retain`: every entry is visited exactly once, in order; the entry is kept iff the closure returns true).  BODY is unchanged
        #      except that `return E;` (= the closure's early result) becomes `{ CUR.keep(E); continue; }`.  The cursor type is a stub of the
        #      unit's prelude (an ASSUMED dependency contract, listed as such); the loop invariant is specification only (E2).
        #      Needed because Verus rejects closures that capture `&mut` state.
        if retains:
            mb = mask(body)
            calls = [mt for mt in re.finditer(r'\.\s*retain\s*\(', mb)]
            spans = {}
            for k, rt in retains.items():
                if k >= len(calls):
                    raise ExtractError(f'fn {name}: retain call ordinal {k} not found ({len(calls)} calls)')
                dot = calls[k].start()
                po = calls[k].end() - 1
                pc = match_close(mb, po)
                a = dot
                while a > 0 and (mb[a - 1].isalnum() or mb[a - 1] in '_. \t\n'):
                    a -= 1
                while a < dot and mb[a] in ' \t\n':
                    a += 1
                recv = norm_ws(body[a:dot]).replace(' ', '')
                if not re.fullmatch(r'[A-Za-z_][\w]*(\.[A-Za-z_0-9]\w*)*', recv):
                    raise ExtractError(f'fn {name}: retain {k}: receiver `{recv}` is not a plain place expression')
                j = po + 1
                while mb[j] in ' \t\n':
                    j += 1
                if mb[j] != '|':
                    raise ExtractError(f'fn {name}: retain {k}: argument is not a closure literal')
                p_close = mb.find('|', j + 1)
                params = body[j + 1:p_close].strip()
                b = p_close + 1
                while mb[b] in ' \t\n':
                    b += 1
                is_block = mb[b] == '{'
                if is_block:
                    b_end = match_close(mb, b) + 1
                    if mb[b_end:pc].strip().strip(',').strip():
                        raise ExtractError(f'fn {name}: retain {k}: unexpected text after the closure')
                else:
                    b_end = pc
                    while mb[b_end - 1] in ' \t\n,':
                        b_end -= 1
                e = pc + 1
                while e < len(mb) and mb[e] in ' \t\n':
                    e += 1
                if e >= len(mb) or mb[e] != ';':
                    raise ExtractError(f'fn {name}: retain {k}: the call is not a statement')
                cur = rt['cur']
                ghost = ''
                if rt.get('fin'):
                    # specification only: a ghost name for the value the receiver will have when the cursor's borrow of it ends
                    ghost = 'let ghost ' + rt['fin'] + ' = *final(' + cur + '.map);\n'
                if rt.get('old'):
                    # specification only: a ghost name for the receiver's value when the cursor is created
                    ghost += 'let ghost ' + rt['old'] + ' = *' + cur + '.map;\n'
                head = ('{ let mut ' + cur + ' = ' + recv + '.retain_cursor();\n' + ghost + 'loop\n' + rt['inv'].rstrip('\n') + '\n{ let (' + params + ') = match ' + cur
                        + '.next() { Some(e__) => e__, None => break };\nlet keep__: bool = ' + ('' if is_block else '{ '))
                dels.append((a, b, head))
                dels.append((b_end, e + 1, ('' if is_block else ' }') + ';\n' + cur + '.keep(keep__);\n}\n' + cur + '.finish(); }'))
                spans[k] = (b, b_end, cur)
                rules.append(('R1', f'retain {k}: `{recv}.retain(|{params}| ..)` desugared to cursor loop `{cur}` (visit each entry once in order; keep iff closure result)', ''))
                rules.append(('E2', f'retain {k} loop invariant', f"{len(rt['inv'].splitlines())} lines"))
            for mt in re.finditer(r'\breturn\b', mb):
                inner = None
                for k, (b, b_end, cur) in spans.items():
                    if b <= mt.start() < b_end and (inner is None or b >= inner[0]):
                        inner = (b, b_end, cur)
                if inner is None:
                    continue
                # a `return` inside another (not desugared) closure nested in this one would belong to that closure
                desugared_starts = set(sp[0] for sp in spans.values())
                for (_po, _pc, cb, ce, _blk) in find_closures(mb):
                    if cb not in desugared_starts and inner[0] <= cb and ce <= inner[1] and cb <= mt.start() < ce:
                        raise ExtractError(f'fn {name}: `return` inside a closure nested in a desugared retain closure')
                semi = mb.find(';', mt.end())
                expr = body[mt.end():semi].strip()
                dels.append((mt.start(), semi + 1, '{ ' + inner[2] + '.keep(' + expr + '); continue; }'))
                rules.append(('R1', f'`return {norm_ws(expr)};` in the retain closure -> `{{ {inner[2]}.keep(..); continue; }}`', ''))
            dels.sort(key=lambda d: (d[0], d[1]))
        # ---- L1: a byte-string literal b"..." is written as the array literal of its bytes `&[0x..u8, ..]` (same value, same type up to the
        #      unsized coercion that the call site performs anyway); Verus knows the LENGTH of a byte-string literal but not its contents
        if opts.get('bytelit'):
            for (a_, e_, val) in byte_string_literals(body):
                dels.append((a_, e_, '&[' + ', '.join(f'{b}u8' for b in val) + ']'))
                rules.append(('L1', 'byte-string literal -> array literal of the same bytes', repr(val)[:60]))
            dels.sort(key=lambda d: (d[0], d[1]))
        # ---- M1: method call `.NAME(` renamed to `.NAME_(`: a wrapper of the unit's prelude (trait method, external_body) whose contract is the
        #      ASSUMED specification of the std method of that name - only for std methods to which Verus cannot attach a specification
        #      (`to_be_bytes`: return type is a const-generic expression)
        if opts.get('wrap'):
            mb = mask(body)
            for nm in opts['wrap'].split(','):
                for mt in re.finditer(r'\.\s*' + re.escape(nm) + r'\s*(?:::\s*<|\()', mb):
                    st = mt.start() + mb[mt.start():mt.end()].index(nm)
                    dels.append((st, st + len(nm), nm + '_'))
                    rules.append(('M1', f'std method .{nm}() called through the prelude wrapper .{nm}_() (assumed specification)', ''))
            dels.sort(key=lambda d: (d[0], d[1]))
        if opts.get('asyncseq'):
            mb = mask(body)
            for mt in re.finditer(r'\.\s*await\b', mb):
                dels.append((mt.start(), mt.end(), ''))
                rules.append(('AS1', '`.await` = completion value of the awaited (stubbed, synchronous) call', ''))
            dels.sort(key=lambda d: (d[0], d[1]))
        # ---- B1: non-short-circuit `A & B` on two side-effect-free operands (optionally negated / parenthesised variable or field path) -> `&&`
        #      (same value, and neither operand has an effect whose evaluation could be skipped; Verus rejects `&` on bool)
        if opts.get('booland'):
            mb = mask(body)
            opnd = r'(?:\(!?[A-Za-z_][\w.]*\)|!?[A-Za-z_][\w.]*)'
            for mt in re.finditer(r'(?<![&\w.)])' + opnd + r'\s+&\s+' + opnd + r'(?![\w.(])', mb):
                amp = mt.start() + mb[mt.start():mt.end()].index('&')
                dels.append((amp, amp + 1, '&&'))
                rules.append(('B1', 'non-short-circuit & on pure bool operands -> &&', norm_ws(body[mt.start():mt.end()])))
            dels.sort(key=lambda d: (d[0], d[1]))
        # combine deletions and insertions
        pos = 0
        events = sorted([(d[0], 0, d[1], d[2] if len(d) > 2 else None) for d in dels]
                        + [(x[0], 2 if len(x) > 2 else 1, x[0], x[1]) for x in inserts])
        base = f['body_open']
        for a, kind_, b, inv in events:
            if a > pos:
                segs.append(Seg(body[pos:a], base + pos))
            if kind_ == 0:
                if inv is not None:
                    segs.append(Seg(inv))
                pos = max(pos, b)
            elif kind_ == 2:
                segs.append(Seg(inv))
                pos = max(pos, a)
            else:
                segs.append(Seg('\n' + inv.rstrip('\n') + '\n'))
                pos = max(pos, a)
        if pos < len(body):
            segs.append(Seg(body[pos:], base + pos))
        segs.append(Seg('\n'))
        self.records.append(dict(kind='fn', name=(container + ' :: ' if container != '-' else '') + name, file=rel,
                                 lines=[S.line_of(f['start']), S.line_of(f['end'] - 1)],
                                 sha256=hashlib.sha256(raw.encode()).hexdigest(), rules=rules,
                                 tag=opts.get('tag', '')))
        return segs, S


DIRECTIVE = re.compile(r'^\s*//@(\w+)\s*(.*)$')


def build_unit(template_path, repo_root, vacuity=False):
    """Returns (text, line_table, extractor_records, fn_list).
    line_table[i] (0-based output line) = dict(kind='tmpl', line=n) | dict(kind='src', file, line, fn, tag)
    """
    ex = Extractor(repo_root)

    def load(path, depth=0):
        out = []
        for ln in open(path).read().split('\n'):
            mi = re.match(r'^\s*//@INCLUDE\s+(\S+)\s*$', ln)
            if mi:
                if depth > 4:
                    raise ExtractError('INCLUDE nesting too deep')
                out += load(os.path.join(os.path.dirname(template_path), mi.group(1)), depth + 1)
            else:
                out.append(ln)
        return out
    tl = load(template_path)
    # conditional sections: //@IFPRESENT <file> | <regex> ... //@ELSE ... //@ENDIF  (rule A3: which model of the start-up
    # validation applies is read off the source; recorded in the evidence)
    sel, keep_stack = [], []
    for ln in tl:
        mi = re.match(r'^\s*//@IFPRESENT\s+(.*)$', ln)
        if mi:
            parts = [x.strip() for x in mi.group(1).split('|')]
            rel, rx = parts[0], '|'.join(parts[1:])
            present = bool(re.search(rx, ex.src(rel).m))
            ex.records.append(dict(kind='conditional-anchor', name=rx, file=rel, lines=[0, 0], sha256='',
                                   rules=[('A3', 'present' if present else 'absent', rx)]))
            keep_stack.append([present, present])
            continue
        if re.match(r'^\s*//@ELSE\s*$', ln):
            keep_stack[-1][1] = not keep_stack[-1][0]
            continue
        if re.match(r'^\s*//@ENDIF\s*$', ln):
            keep_stack.pop()
            continue
        if all(k[1] for k in keep_stack):
            sel.append(ln)
    if keep_stack:
        raise ExtractError(f'{template_path}: unterminated //@IFPRESENT')
    tl = sel
    out_lines = []
    table = []
    fns = []

    def emit_tmpl(text, tline, ctx=None):
        for ln in text.split('\n'):
            out_lines.append(ln)
            table.append(dict(kind='tmpl', line=tline, ctx=ctx))

    def emit_segs(segs, S, fnname, tag):
        # flatten to chars with origin
        cur = ''
        cur_origin = None
        for sg in segs:
            t = sg.text
            off = sg.off
            for idx, ch in enumerate(t):
                if cur_origin is None and off is not None and ch not in ' \t\n':
                    cur_origin = off + idx
                if ch == '\n':
                    out_lines.append(cur)
                    if cur_origin is not None:
                        table.append(dict(kind='src', file=S.path, line=S.line_of(cur_origin), fn=fnname, tag=tag))
                    else:
                        table.append(dict(kind='contract', fn=fnname, tag=tag))
                    cur = ''
                    cur_origin = None
                else:
                    cur += ch
        if cur:
            out_lines.append(cur)
            table.append(dict(kind='src' if cur_origin is not None else 'contract', file=S.path,
                              line=S.line_of(cur_origin) if cur_origin is not None else 0, fn=fnname, tag=tag))

    i = 0
    while i < len(tl):
        line = tl[i]
        mt = DIRECTIVE.match(line)
        if not mt:
            out_lines.append(line)
            table.append(dict(kind='tmpl', line=i + 1))
            i += 1
            continue
        d, rest = mt.group(1), mt.group(2)
        parts = [p.strip() for p in rest.split('|')]
        if d == 'ITEM':
            rel = parts[0]
            kind, name = parts[1].split()
            opts = dict(p.split('=', 1) for p in parts[2:])
            segs, S = ex.item(rel, kind, name, opts)
            emit_segs(segs, S, f'{kind} {name}', '')
            i += 1
        elif d == 'FN':
            rel, container, name = parts[0], parts[1], parts[2]
            opts = dict(p.split('=', 1) for p in parts[3:])
            contract = []
            loops = {}
            closures = {}
            retains = {}
            cur = contract
            i += 1
            while i < len(tl) and not tl[i].strip().startswith('//@END'):
                m2 = DIRECTIVE.match(tl[i])
                if m2 and m2.group(1) == 'LOOP':
                    la = m2.group(2).split()
                    k = int(la[0])
                    loops[k] = []
                    cur = loops[k]
                    for extra in la[1:]:
                        if extra.startswith('name='):
                            cur.append('//@NAME ' + extra[5:])
                        if extra.startswith('desugar='):
                            cur.append('//@DESUGAR ' + extra[8:])
                elif m2 and m2.group(1) == 'RETAIN':
                    # //@RETAIN k cur=NAME      (following lines: invariant / decreases of the cursor loop)
                    la = m2.group(2).split()
                    k = int(la[0])
                    cn = [x[4:] for x in la[1:] if x.startswith('cur=')]
                    fn_ = [x[4:] for x in la[1:] if x.startswith('fin=')]
                    on_ = [x[4:] for x in la[1:] if x.startswith('old=')]
                    retains[k] = dict(cur=cn[0] if cn else f'cur{k}__', fin=fn_[0] if fn_ else None, old=on_[0] if on_ else None, lines=[])
                    cur = retains[k]['lines']
                elif m2 and m2.group(1) == 'CLOSURE':
                    # //@CLOSURE k | typed parameter list | ret: Type      (following lines: requires / ensures)
                    cp = [x.strip() for x in m2.group(2).split('|')]
                    if len(cp) not in (3, 4):
                        raise ExtractError(f'{template_path}:{i+1}: CLOSURE needs "k | params | ret: Type [| bind=PATTERN]"')
                    closures[int(cp[0])] = dict(params=cp[1], ret=cp[2], lines=[])
                    if len(cp) == 4:
                        if not cp[3].startswith('bind='):
                            raise ExtractError(f'{template_path}:{i+1}: CLOSURE: 4th field must be bind=PATTERN')
                        closures[int(cp[0])]['bind'] = cp[3][5:].strip()
                    cur = closures[int(cp[0])]['lines']
                elif m2:
                    raise ExtractError(f'{template_path}:{i+1}: directive inside FN block')
                else:
                    cur.append(tl[i])
                i += 1
            if i >= len(tl):
                raise ExtractError(f'{template_path}: FN {name} without //@END')
            i += 1
            ctext = '\n'.join(contract)
            ltext = {k: '\n'.join(v) for k, v in loops.items()}
            for c in closures.values():
                c['spec'] = '\n'.join(c['lines'])
            for c in retains.values():
                c['inv'] = '\n'.join(c['lines'])
            label = opts.get('label', name)
            segs, S = ex.fn(rel, container, name, opts, ctext, ltext, closures, retains)
            emit_segs(segs, S, label, opts.get('tag', ''))
            if vacuity and not opts.get('novac'):
                # vacuity guard: a renamed COPY of the function with `ensures false` added; callers keep seeing the
                # real contract of the original, so only a contradictory requires / prelude can make the copy verify
                vtext = ctext
                if re.search(r'^\s*ensures\b', vtext, re.M):
                    vtext = re.sub(r'^(\s*)ensures\b', r'\1ensures false,', vtext, count=1, flags=re.M)
                else:
                    dm = re.search(r'^\s*decreases\b', vtext, re.M)
                    if dm:
                        vtext = vtext[:dm.start()] + '    ensures false,\n' + vtext[dm.start():]
                    else:
                        vtext = vtext + '\n    ensures false,'
                nrec = len(ex.records)
                vsegs, S2 = ex.fn(rel, container, name, opts, vtext, ltext, closures, retains)
                del ex.records[nrec:]
                done = False
                for sg in vsegs:
                    if not done and re.search(r'\bfn\s+' + re.escape(name) + r'\b', sg.text):
                        sg.text = re.sub(r'\bfn(\s+)' + re.escape(name) + r'\b', r'fn\1' + name + '__vac', sg.text, count=1)
                        done = True
                if not done:
                    raise ExtractError(f'vacuity copy: fn {name} signature not found')
                emit_segs(vsegs, S2, label + '__vac', opts.get('tag', ''))
            fns.append(dict(name=name, label=label, container=container, file=rel, tag=opts.get('tag', ''),
                            novac=bool(opts.get('novac'))))
        elif d == 'CONSTLEN':
            # rule E4: length of a byte-string literal constant `const NAME: &[u8] = b"...";` computed from the source text
            rel, name = parts[0], parts[1]
            S = ex.src(rel)
            start, head, end = S.find_item('const', name)
            raw = S.text[start:end]
            m = re.search(r'=\s*b"((?:[^"\\]|\\.)*)"\s*;', raw)
            if not m:
                raise ExtractError(f'{rel}: const {name} is not a byte-string literal')
            lit = m.group(1)
            n = len(re.sub(r'\\(x[0-9a-fA-F]{2}|.)', 'X', lit))
            out_lines.append(f'pub const {name}_LEN: usize = {n};   // length of the literal at {rel}:{S.line_of(start)}')
            table.append(dict(kind='tmpl', line=i + 1))
            ex.records.append(dict(kind='constlen', name=name, file=rel, lines=[S.line_of(start), S.line_of(end - 1)],
                                   sha256=hashlib.sha256(raw.encode()).hexdigest(), rules=[('E4', 'byte-string literal length', str(n))]))
            i += 1
        elif d == 'PRESENT':
            # anchor: the unit's model of start-up validation relies on this text being present in the source
            rel, rx = parts[0], '|'.join(parts[1:])
            S = ex.src(rel)
            if not re.search(rx, S.m):
                raise ExtractError(f'{rel}: anchor `{rx}` is no longer present; the unit {os.path.basename(template_path)} must be revised (undecided, not a violation)')
            ex.records.append(dict(kind='present-anchor', name=rx, file=rel, lines=[0, 0], sha256='', rules=[('A2', 'anchor present', rx)]))
            i += 1
        elif d == 'ABSENT':
            # anchor: the unit's model of "what the tracker validates at start-up" is only right while this text is absent
            rel, rx = parts[0], '|'.join(parts[1:])
            S = ex.src(rel)
            if re.search(rx, S.m):
                raise ExtractError(f'{rel}: anchor `{rx}` is now present; the unit {os.path.basename(template_path)} must be revised (undecided, not a violation)')
            ex.records.append(dict(kind='absent-anchor', name=rx, file=rel, lines=[0, 0], sha256='', rules=[('A1', 'anchor absent', rx)]))
            i += 1
        else:
            raise ExtractError(f'{template_path}:{i+1}: unknown directive {d}')
    return '\n'.join(out_lines) + '\n', table, ex.records, fns
