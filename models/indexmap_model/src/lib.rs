//! Fixed-capacity, heap-free executable model of the subset of indexmap::IndexMap used by aquatic.
//! Capacity overflow is a harness error (kani::assume-d away by construction), not modelled behaviour.
use std::marker::PhantomData;
pub const CAP: usize = 8;
pub mod map {
    pub use super::{IndexMap, Slice, Entry, OccupiedEntry, VacantEntry};
}
pub struct IndexMap<K, V, S = ()> { entries: [Option<(K, V)>; CAP], len: usize, _s: PhantomData<S> }
impl<K: Clone, V: Clone, S> Clone for IndexMap<K, V, S> { fn clone(&self) -> Self { Self { entries: self.entries.clone(), len: self.len, _s: PhantomData } } }
impl<K, V, S> std::fmt::Debug for IndexMap<K, V, S> { fn fmt(&self, f: &mut std::fmt::Formatter<'_>) -> std::fmt::Result { f.write_str("IndexMap(model)") } }
impl<K, V, S> IndexMap<K, V, S> {
    /// model-only accessors for harnesses
    pub fn model_len(&self) -> usize { self.len }
    pub fn model_entry(&self, i: usize) -> (&K, &V) { kv(&self.entries[i]) }
    pub fn with_hasher(_s: S) -> Self { Self::default() }
    pub fn with_capacity_and_hasher(_n: usize, _s: S) -> Self { Self::default() }
}
impl<K, V, S> Default for IndexMap<K, V, S> { fn default() -> Self { Self { entries: std::array::from_fn(|_| None), len: 0, _s: PhantomData } } }
#[repr(transparent)]
pub struct Slice<K, V> { entries: [Option<(K, V)>] }
fn kv<K, V>(e: &Option<(K, V)>) -> (&K, &V) { match e { Some((k, v)) => (k, v), None => unreachable!() } }
impl<K, V> Slice<K, V> {
    fn from_slice(s: &[Option<(K, V)>]) -> &Self { unsafe { &*(s as *const [Option<(K, V)>] as *const Self) } }
    pub fn keys(&self) -> impl Iterator<Item = &K> + '_ { self.entries.iter().map(|e| kv(e).0) }
    pub fn iter(&self) -> impl Iterator<Item = (&K, &V)> + '_ { self.entries.iter().map(|e| kv(e)) }
    pub fn len(&self) -> usize { self.entries.len() }
}
impl<K: Eq, V, S> IndexMap<K, V, S> {
    pub fn len(&self) -> usize { self.len }
    pub fn is_empty(&self) -> bool { self.len == 0 }
    fn pos(&self, k: &K) -> Option<usize> { let mut i = 0; while i < self.len { if kv(&self.entries[i]).0 == k { return Some(i); } i += 1; } None }
    pub fn get(&self, k: &K) -> Option<&V> { self.pos(k).map(|i| kv(&self.entries[i]).1) }
    pub fn get_mut(&mut self, k: &K) -> Option<&mut V> { match self.pos(k) { Some(i) => self.entries[i].as_mut().map(|e| &mut e.1), None => None } }
    fn push(&mut self, k: K, v: V) { assert!(self.len < CAP, "indexmap_model capacity"); self.entries[self.len] = Some((k, v)); self.len += 1; }
    fn swap_remove_index(&mut self, i: usize) -> (K, V) {
        let last = self.len - 1;
        self.entries.swap(i, last);
        self.len = last;
        self.entries[last].take().unwrap()
    }
    pub fn insert(&mut self, k: K, v: V) -> Option<V> {
        match self.pos(&k) { Some(i) => self.entries[i].as_mut().map(|e| std::mem::replace(&mut e.1, v)), None => { self.push(k, v); None } }
    }
    pub fn swap_remove(&mut self, k: &K) -> Option<V> { match self.pos(k) { Some(i) => Some(self.swap_remove_index(i).1), None => None } }
    pub fn retain<F: FnMut(&K, &mut V) -> bool>(&mut self, mut f: F) {
        let mut w = 0; let mut r = 0;
        while r < self.len {
            let keep = match self.entries[r].as_mut() { Some(e) => f(&e.0, &mut e.1), None => unreachable!() };
            if keep { if w != r { self.entries.swap(w, r); } w += 1; } else { self.entries[r] = None; }
            r += 1;
        }
        self.len = w;
    }
    pub fn iter(&self) -> impl Iterator<Item = (&K, &V)> + '_ { self.entries[..self.len].iter().map(|e| kv(e)) }
    pub fn keys(&self) -> impl Iterator<Item = &K> + '_ { self.entries[..self.len].iter().map(|e| kv(e).0) }
    pub fn values(&self) -> impl Iterator<Item = &V> + '_ { self.entries[..self.len].iter().map(|e| kv(e).1) }
    pub fn get_range(&self, r: std::ops::Range<usize>) -> Option<&Slice<K, V>> { self.entries[..self.len].get(r).map(Slice::from_slice) }
    pub fn shrink_to_fit(&mut self) {}
    pub fn sort_unstable_by<F: FnMut(&K, &V, &K, &V) -> std::cmp::Ordering>(&mut self, mut f: F) {
        let n = self.len; self.entries[..n].sort_unstable_by(|a, b| { let (ak, av) = kv(a); let (bk, bv) = kv(b); f(ak, av, bk, bv) })
    }
    pub fn entry(&mut self, k: K) -> Entry<'_, K, V, S> {
        match self.pos(&k) { Some(i) => Entry::Occupied(OccupiedEntry { m: self, i }), None => Entry::Vacant(VacantEntry { m: self, k }) }
    }
}
pub enum Entry<'a, K, V, S = ()> { Occupied(OccupiedEntry<'a, K, V, S>), Vacant(VacantEntry<'a, K, V, S>) }
pub struct OccupiedEntry<'a, K, V, S = ()> { m: &'a mut IndexMap<K, V, S>, i: usize }
pub struct VacantEntry<'a, K, V, S = ()> { m: &'a mut IndexMap<K, V, S>, k: K }
impl<'a, K: Eq, V, S> OccupiedEntry<'a, K, V, S> {
    pub fn get(&self) -> &V { kv(&self.m.entries[self.i]).1 }
    pub fn get_mut(&mut self) -> &mut V { match self.m.entries[self.i].as_mut() { Some(e) => &mut e.1, None => unreachable!() } }
    pub fn into_mut(self) -> &'a mut V { match self.m.entries[self.i].as_mut() { Some(e) => &mut e.1, None => unreachable!() } }
    pub fn swap_remove(self) -> V { self.m.swap_remove_index(self.i).1 }
}
impl<'a, K: Eq, V, S> VacantEntry<'a, K, V, S> {
    pub fn insert(self, v: V) -> &'a mut V { self.m.push(self.k, v); let n = self.m.len; match self.m.entries[n - 1].as_mut() { Some(e) => &mut e.1, None => unreachable!() } }
}
impl<'a, K: Eq, V, S> Entry<'a, K, V, S> {
    pub fn or_insert_with<F: FnOnce() -> V>(self, f: F) -> &'a mut V { match self { Entry::Occupied(o) => o.into_mut(), Entry::Vacant(v) => v.insert(f()) } }
    pub fn or_insert(self, d: V) -> &'a mut V { self.or_insert_with(|| d) }
    pub fn or_default(self) -> &'a mut V where V: Default { self.or_insert_with(V::default) }
}
impl<K: Eq, V, S> FromIterator<(K, V)> for IndexMap<K, V, S> {
    fn from_iter<I: IntoIterator<Item = (K, V)>>(it: I) -> Self { let mut m = Self::default(); for (k, v) in it { m.insert(k, v); } m }
}
impl<K, V, S> IntoIterator for IndexMap<K, V, S> {
    type Item = (K, V); type IntoIter = std::iter::Flatten<std::array::IntoIter<Option<(K, V)>, CAP>>;
    fn into_iter(self) -> Self::IntoIter { self.entries.into_iter().flatten() }
}
