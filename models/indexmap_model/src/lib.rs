//! Fixed-capacity, heap-free executable model of the subset of `indexmap::IndexMap` used by aquatic (Kani only).
//!
//! It is an *assumed contract on a dependency in executable form*: insertion-ordered map with distinct keys;
//! `insert` appends or overwrites in place; `swap_remove` moves the last entry into the hole; `retain` keeps order.
//! Exceeding the capacity is a harness error (`assert!`), never modelled behaviour.
//!
//! Implementation note: every element access uses a LOOP-CONSTANT index (`while j < CAP { if j == i { .. } }`).
//! CBMC 6.11 produced spurious counterexamples (not reproducible by native playback) when elements that contain
//! byte arrays were read or moved at path-dependent indices; with loop-constant indices the artefact disappears.
use std::marker::PhantomData;

pub const CAP: usize = 8;

pub mod map {
    pub use super::{Entry, IndexMap, OccupiedEntry, Slice, VacantEntry};
}

pub struct IndexMap<K, V, S = ()> {
    entries: [Option<(K, V)>; CAP],
    len: usize,
    _s: PhantomData<S>,
}

impl<K, V, S> Default for IndexMap<K, V, S> {
    fn default() -> Self {
        Self { entries: [None, None, None, None, None, None, None, None], len: 0, _s: PhantomData }
    }
}
impl<K: Clone, V: Clone, S> Clone for IndexMap<K, V, S> {
    fn clone(&self) -> Self {
        Self { entries: self.entries.clone(), len: self.len, _s: PhantomData }
    }
}
impl<K, V, S> std::fmt::Debug for IndexMap<K, V, S> {
    fn fmt(&self, f: &mut std::fmt::Formatter<'_>) -> std::fmt::Result {
        f.write_str("IndexMap(model)")
    }
}

#[repr(transparent)]
pub struct Slice<K, V> {
    entries: [Option<(K, V)>],
}

fn kv<K, V>(e: &Option<(K, V)>) -> (&K, &V) {
    match e {
        Some((k, v)) => (k, v),
        None => unreachable!(),
    }
}

impl<K, V> Slice<K, V> {
    fn from_slice(s: &[Option<(K, V)>]) -> &Self {
        unsafe { &*(s as *const [Option<(K, V)>] as *const Self) }
    }
    pub fn keys(&self) -> impl Iterator<Item = &K> + '_ {
        self.entries.iter().map(|e| kv(e).0)
    }
    pub fn iter(&self) -> impl Iterator<Item = (&K, &V)> + '_ {
        self.entries.iter().map(|e| kv(e))
    }
    pub fn len(&self) -> usize {
        self.entries.len()
    }
}

impl<K, V, S> IndexMap<K, V, S> {
    /// model-only accessors for harnesses (call them with loop-constant indices)
    pub fn model_len(&self) -> usize {
        self.len
    }
    pub fn model_entry(&self, i: usize) -> (&K, &V) {
        let mut j = 0;
        while j < CAP {
            if j == i {
                return kv(&self.entries[j]);
            }
            j += 1;
        }
        unreachable!()
    }
    pub fn with_hasher(_s: S) -> Self {
        Self::default()
    }
    pub fn with_capacity_and_hasher(_n: usize, _s: S) -> Self {
        Self::default()
    }
    pub fn len(&self) -> usize {
        self.len
    }
    pub fn is_empty(&self) -> bool {
        self.len == 0
    }
    pub fn shrink_to_fit(&mut self) {}
    pub fn iter(&self) -> impl Iterator<Item = (&K, &V)> + '_ {
        self.entries[..self.len].iter().map(|e| kv(e))
    }
    pub fn keys(&self) -> impl Iterator<Item = &K> + '_ {
        self.entries[..self.len].iter().map(|e| kv(e).0)
    }
    pub fn values(&self) -> impl Iterator<Item = &V> + '_ {
        self.entries[..self.len].iter().map(|e| kv(e).1)
    }
    pub fn get_range(&self, r: std::ops::Range<usize>) -> Option<&Slice<K, V>> {
        self.entries[..self.len].get(r).map(Slice::from_slice)
    }

    fn take_at(&mut self, i: usize) -> Option<(K, V)> {
        let mut out = None;
        let mut j = 0;
        while j < CAP {
            if j == i {
                out = self.entries[j].take();
            }
            j += 1;
        }
        out
    }
    fn put_at(&mut self, i: usize, e: Option<(K, V)>) {
        let mut e = e;
        let mut j = 0;
        while j < CAP {
            if j == i {
                self.entries[j] = e.take();
            }
            j += 1;
        }
    }
    fn push(&mut self, k: K, v: V) {
        assert!(self.len < CAP, "indexmap_model capacity exceeded (harness error)");
        let at = self.len;
        self.put_at(at, Some((k, v)));
        self.len = at + 1;
    }
    fn swap_remove_index(&mut self, i: usize) -> (K, V) {
        let last = self.len - 1;
        let removed = self.take_at(i).unwrap();
        if i != last {
            let e = self.take_at(last);
            self.put_at(i, e);
        }
        self.len = last;
        removed
    }
    fn value_mut_at(&mut self, i: usize) -> &mut V {
        let mut j = 0;
        for e in self.entries.iter_mut() {
            if j == i {
                return match e {
                    Some((_, v)) => v,
                    None => unreachable!(),
                };
            }
            j += 1;
        }
        unreachable!()
    }

    pub fn retain<F: FnMut(&K, &mut V) -> bool>(&mut self, mut f: F) {
        // pass 1: decide, in order; pass 2: stable compaction
        let mut r = 0;
        while r < CAP {
            if r < self.len {
                let keep = match &mut self.entries[r] {
                    Some((k, v)) => f(&*k, v),
                    None => unreachable!(),
                };
                if !keep {
                    self.entries[r] = None;
                }
            }
            r += 1;
        }
        self.compact();
    }
    /// stable compaction of the `Some` entries to the front (loop-constant indices only)
    fn compact(&mut self) {
        let mut j = 0;
        let mut kept = 0;
        while j < CAP {
            if self.entries[j].is_none() {
                let mut k = j + 1;
                let mut done = false;
                while k < CAP {
                    if !done && self.entries[k].is_some() {
                        let e = self.entries[k].take();
                        self.entries[j] = e;
                        done = true;
                    }
                    k += 1;
                }
            }
            if self.entries[j].is_some() {
                kept += 1;
            }
            j += 1;
        }
        self.len = kept;
    }
    /// `drain(range)`: removes the entries at the positions of `range`, keeping the order of the rest; yields the removed entries in order
    pub fn drain<R: std::ops::RangeBounds<usize>>(&mut self, range: R) -> impl Iterator<Item = (K, V)> {
        use std::ops::Bound::*;
        let a = match range.start_bound() { Included(&x) => x, Excluded(&x) => x + 1, Unbounded => 0 };
        let b = match range.end_bound() { Included(&x) => x + 1, Excluded(&x) => x, Unbounded => self.len };
        assert!(a <= b && b <= self.len, "drain range out of bounds");
        let mut out: [Option<(K, V)>; CAP] = std::array::from_fn(|_| None);
        let mut j = 0;
        while j < CAP {
            if j >= a && j < b {
                out[j] = self.entries[j].take();
            }
            j += 1;
        }
        self.compact();
        out.into_iter().flatten()
    }
    pub fn sort_unstable_by<F: FnMut(&K, &V, &K, &V) -> std::cmp::Ordering>(&mut self, mut f: F) {
        let n = self.len;
        self.entries[..n].sort_unstable_by(|a, b| {
            let (ak, av) = kv(a);
            let (bk, bv) = kv(b);
            f(ak, av, bk, bv)
        })
    }
}

impl<K: Eq, V, S> IndexMap<K, V, S> {
    fn pos(&self, k: &K) -> Option<usize> {
        let mut found = None;
        let mut j = 0;
        while j < CAP {
            if j < self.len && found.is_none() {
                if kv(&self.entries[j]).0 == k {
                    found = Some(j);
                }
            }
            j += 1;
        }
        found
    }
    pub fn get(&self, k: &K) -> Option<&V> {
        let mut j = 0;
        while j < CAP {
            if j < self.len {
                let (kk, v) = kv(&self.entries[j]);
                if kk == k {
                    return Some(v);
                }
            }
            j += 1;
        }
        None
    }
    pub fn contains_key(&self, k: &K) -> bool {
        self.get(k).is_some()
    }
    pub fn get_mut(&mut self, k: &K) -> Option<&mut V> {
        match self.pos(k) {
            Some(i) => Some(self.value_mut_at(i)),
            None => None,
        }
    }
    pub fn insert(&mut self, k: K, v: V) -> Option<V> {
        match self.pos(&k) {
            Some(i) => Some(std::mem::replace(self.value_mut_at(i), v)),
            None => {
                self.push(k, v);
                None
            }
        }
    }
    pub fn swap_remove(&mut self, k: &K) -> Option<V> {
        match self.pos(k) {
            Some(i) => Some(self.swap_remove_index(i).1),
            None => None,
        }
    }
    pub fn entry(&mut self, k: K) -> Entry<'_, K, V, S> {
        match self.pos(&k) {
            Some(i) => Entry::Occupied(OccupiedEntry { m: self, i }),
            None => Entry::Vacant(VacantEntry { m: self, k }),
        }
    }
}

pub enum Entry<'a, K, V, S = ()> {
    Occupied(OccupiedEntry<'a, K, V, S>),
    Vacant(VacantEntry<'a, K, V, S>),
}
pub struct OccupiedEntry<'a, K, V, S = ()> {
    m: &'a mut IndexMap<K, V, S>,
    i: usize,
}
pub struct VacantEntry<'a, K, V, S = ()> {
    m: &'a mut IndexMap<K, V, S>,
    k: K,
}
impl<'a, K, V, S> OccupiedEntry<'a, K, V, S> {
    pub fn get(&self) -> &V {
        self.m.model_entry(self.i).1
    }
    pub fn get_mut(&mut self) -> &mut V {
        self.m.value_mut_at(self.i)
    }
    pub fn into_mut(self) -> &'a mut V {
        self.m.value_mut_at(self.i)
    }
    pub fn swap_remove(self) -> V {
        self.m.swap_remove_index(self.i).1
    }
}
impl<'a, K, V, S> VacantEntry<'a, K, V, S> {
    pub fn insert(self, v: V) -> &'a mut V {
        self.m.push(self.k, v);
        let n = self.m.len;
        self.m.value_mut_at(n - 1)
    }
}
impl<'a, K, V, S> Entry<'a, K, V, S> {
    pub fn or_insert_with<F: FnOnce() -> V>(self, f: F) -> &'a mut V {
        match self {
            Entry::Occupied(o) => o.into_mut(),
            Entry::Vacant(v) => v.insert(f()),
        }
    }
    pub fn or_insert(self, d: V) -> &'a mut V {
        self.or_insert_with(|| d)
    }
    pub fn or_default(self) -> &'a mut V
    where
        V: Default,
    {
        self.or_insert_with(V::default)
    }
}
impl<K: Eq, V, S> FromIterator<(K, V)> for IndexMap<K, V, S> {
    fn from_iter<I: IntoIterator<Item = (K, V)>>(it: I) -> Self {
        let mut m = Self::default();
        for (k, v) in it {
            m.insert(k, v);
        }
        m
    }
}
impl<K, V, S> IntoIterator for IndexMap<K, V, S> {
    type Item = (K, V);
    type IntoIter = std::iter::Flatten<std::array::IntoIter<Option<(K, V)>, CAP>>;
    fn into_iter(self) -> Self::IntoIter {
        self.entries.into_iter().flatten()
    }
}

#[cfg(test)]
mod tests {
    //! differential test against the real `indexmap` is in /verif/models/difftest (run by setup); these are smoke tests
    use super::*;
    #[test]
    fn retain_keeps_order() {
        let mut m: IndexMap<[u8; 6], ([u8; 20], bool, u32), ()> = IndexMap::default();
        m.insert([1; 6], ([1; 20], true, 1));
        m.insert([2; 6], ([2; 20], false, 10));
        m.insert([3; 6], ([3; 20], false, 2));
        m.insert([4; 6], ([4; 20], true, 20));
        m.retain(|_, p| p.2 > 5);
        assert_eq!(m.model_len(), 2);
        assert_eq!(m.model_entry(0), (&[2u8; 6], &([2u8; 20], false, 10)));
        assert_eq!(m.model_entry(1), (&[4u8; 6], &([4u8; 20], true, 20)));
        assert_eq!(m.swap_remove(&[2; 6]), Some(([2u8; 20], false, 10)));
        assert_eq!(m.model_entry(0).0, &[4u8; 6]);
        assert_eq!(m.insert([4; 6], ([9; 20], false, 1)), Some(([4u8; 20], true, 20)));
        *m.entry([7; 6]).or_insert(([7; 20], true, 7)) = ([8; 20], true, 8);
        assert_eq!(m.get(&[7; 6]), Some(&([8u8; 20], true, 8)));
        assert_eq!(m.len(), 2);
    }
}
