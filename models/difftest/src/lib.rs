//! Differential test: the executable model used by the Kani route against the real `indexmap` crate, on random
//! operation sequences (insert / swap_remove / get / get_mut / retain / entry API / iteration order), capacity <= 8.
#[cfg(test)]
mod tests {
    use real_indexmap::IndexMap as Real; // the real crate and the model (whose library target is also called `indexmap`) are both renamed

    struct Rng(u64);
    impl Rng {
        fn next(&mut self) -> u64 { self.0 ^= self.0 << 13; self.0 ^= self.0 >> 7; self.0 ^= self.0 << 17; self.0 }
        fn below(&mut self, n: u64) -> u64 { self.next() % n }
    }

    fn same(r: &Real<u8, (u8, bool)>, m: &model::IndexMap<u8, (u8, bool)>) {
        assert_eq!(r.len(), m.len());
        let a: Vec<_> = r.iter().map(|(k, v)| (*k, *v)).collect();
        let b: Vec<_> = m.iter().map(|(k, v)| (*k, *v)).collect();
        assert_eq!(a, b, "iteration order / contents differ");
        let ka: Vec<_> = r.keys().copied().collect();
        let kb: Vec<_> = m.keys().copied().collect();
        assert_eq!(ka, kb);
    }

    #[test]
    fn random_operation_sequences_agree() {
        let seed = std::env::var("VERIF_SEED").ok().and_then(|s| s.parse::<u64>().ok()).unwrap_or(1).wrapping_mul(0x9E3779B97F4A7C15) | 1;
        let mut rng = Rng(seed);
        let mut ops = 0u64;
        for _case in 0..3000 {
            let mut r: Real<u8, (u8, bool)> = Real::new();
            let mut m: model::IndexMap<u8, (u8, bool)> = model::IndexMap::default();
            for _ in 0..40 {
                let k = rng.below(12) as u8;
                let v = (rng.below(200) as u8, rng.below(2) == 0);
                match rng.below(10) {
                    0 | 1 => { if r.len() < 8 || r.contains_key(&k) { assert_eq!(r.insert(k, v), m.insert(k, v)); } }
                    2 => assert_eq!(r.swap_remove(&k), m.swap_remove(&k)),
                    3 => assert_eq!(r.get(&k), m.get(&k)),
                    4 => { let a = r.get_mut(&k).map(|x| { x.0 = x.0.wrapping_add(1); *x }); let b = m.get_mut(&k).map(|x| { x.0 = x.0.wrapping_add(1); *x }); assert_eq!(a, b); }
                    5 => { let t = rng.below(200) as u8; r.retain(|_, x| x.0 > t); m.retain(|_, x| x.0 > t); }
                    6 => {
                        if r.len() < 8 || r.contains_key(&k) {
                            *r.entry(k).or_insert(v) = v; *m.entry(k).or_insert(v) = v;
                        }
                    }
                    7 => {
                        let room = r.len() < 8;
                        match r.entry(k) { real_indexmap::map::Entry::Occupied(e) => { e.swap_remove(); } real_indexmap::map::Entry::Vacant(e) => { if room { e.insert(v); } } }
                        match m.entry(k) { model::map::Entry::Occupied(e) => { e.swap_remove(); } model::map::Entry::Vacant(e) => { if room { e.insert(v); } } }
                    }
                    8 => {
                        // drain(a..b) with a <= b <= len: removed entries in order, the rest keeps its order
                        let n = r.len(); let b = rng.below(n as u64 + 1) as usize; let a = rng.below(b as u64 + 1) as usize;
                        let x: Vec<(u8, (u8, bool))> = r.drain(a..b).collect();
                        let y: Vec<(u8, (u8, bool))> = m.drain(a..b).collect();
                        assert_eq!(x, y);
                    }
                    _ => {
                        let a = rng.below(9) as usize; let b = rng.below(9) as usize;
                        let x: Option<Vec<u8>> = r.get_range(a..b).map(|s| s.keys().copied().collect());
                        let y: Option<Vec<u8>> = m.get_range(a..b).map(|s| s.keys().copied().collect());
                        assert_eq!(x, y);
                    }
                }
                same(&r, &m);
                ops += 1;
            }
        }
        println!("indexmap_model difftest: {} operations compared", ops);
    }
}
